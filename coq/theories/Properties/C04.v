(** C04 - a build validates against its own signature, however that was produced.
    Only statements, [exact], and [Print Assumptions]; models in Sig/{Scan,Weak,Sign,Fanout,
    SigFile,HashInfo,Validate}.v (+ Val/VPool.v, Val/Drip.v of C18), proofs in Sig/*Proofs.v.

    Parameters (universally quantified): the block size [bs] (Go: 64 KiB), the weak hash
    [weak] (Go: wsync.βhash, modelled by Sig/Weak.v [beta_hash]) and the strong hash [strong]
    (MD5) - no theorem depends on what they compute -, the scanner's tolerance [maxE] for
    consecutive empty reads (bufio: 100), the fan-out's copy buffer [slice] (ctxcopy: 16 KiB).
    A "source" is a pair (chunking delivered by the pool's reader, whether io.EOF comes with the
    last bytes); [src_content] is the concatenation of its chunks. *)
From Wharf Require Import Base.Prelude Base.BlocksLemmas Val.Drip Val.VPool.
From Wharf Require Import Sig.Scan Sig.ScanProofs Sig.Weak Sig.WeakProofs Sig.Sign Sig.Fanout Sig.SigFile Sig.SignProofs
     Sig.SigFileProofs Sig.HashInfo Sig.HashInfoProofs Sig.Validate Sig.ValidateProofs Sig.C04Proofs.

(** bufio.Scanner with a buffer of exactly [bs] bytes and splitfunc: for every chunking of the
    input (any read sizes, with or without io.EOF accompanying the last bytes) the tokens are the
    full blocks followed by one short tail, nothing for empty input, and no error. *)
Theorem scan_blocks :
  forall (A : Type) (maxE bs : nat), 0 < bs ->
  forall (chunks : list (list A)) (eofWithLast : bool),
    Forall (fun c : list A => c <> []) chunks ->
    scan bs maxE (splitfunc bs) chunks eofWithLast = (blocks bs (concat chunks), SEof).
Proof. exact (@scan_blocks_lemma). Qed.
Print Assumptions scan_blocks.

(** ... and also when the reader interleaves (0, nil) reads - as the pipe of the fan-out does
    once per file - as long as no more than [maxE] of them come in a row. *)
Theorem scan_blocks_with_empty_reads :
  forall (A : Type) (maxE bs : nat), 0 < bs ->
  forall (chunks : list (list A)) (eofWithLast : bool),
    runs_ok maxE maxE chunks ->
    scan bs maxE (splitfunc bs) chunks eofWithLast = (blocks bs (concat chunks), SEof).
Proof. exact (@scan_blocks_runs). Qed.
Print Assumptions scan_blocks_with_empty_reads.

(** CreateSignature over any such reader yields the reference signature of the file: one hash
    per block with its index, the weak and strong hash of the block, ShortSize = the length of a
    shorter final block (else 0); one hash of the empty block for an empty file. *)
Theorem create_signature_any_chunking :
  forall (H : Type) (bs : N), (0 < bs)%N ->
  forall (weak : list N -> N) (strong : list N -> H) (maxE : nat) (fileIndex : N) (chunks : list (list N)) (eofWithLast : bool),
    runs_ok maxE maxE chunks ->
    create_signature bs weak strong maxE fileIndex chunks eofWithLast =
    (sign_file bs weak strong fileIndex (concat chunks), SEof).
Proof. exact (@create_signature_spec). Qed.
Print Assumptions create_signature_any_chunking.

Theorem signature_shape :
  forall (H : Type) (bs : N), (0 < bs)%N ->
  forall (weak : list N -> N) (strong : list N -> H) (fi : N) (f : list N),
    match f with
    | [] => sign_file bs weak strong fi f = [mkbh fi 0%N (weak []) (strong []) 0%N]
    | _ :: _ =>
      length (sign_file bs weak strong fi f) = N.to_nat (num_blocks bs (N.of_nat (length f))) /\
      (forall (k : nat) (b : list N),
         nth_error (blocks (N.to_nat bs) f) k = Some b ->
         nth_error (sign_file bs weak strong fi f) k =
           Some (mkbh fi (N.of_nat k) (weak b) (strong b)
                      (if (N.of_nat (length b) <? bs)%N then N.of_nat (length b) else 0%N)) /\
         (S k < length (blocks (N.to_nat bs) f) -> N.of_nat (length b) = bs) /\
         (0 < N.of_nat (length b) <= bs)%N)
    end.
Proof. exact (@sign_file_shape). Qed.
Print Assumptions signature_shape.

(** number of hashes of a build = sum over the files of max(1, ceil(size / bs)) *)
Theorem signature_count :
  forall (H : Type) (bs : N), (0 < bs)%N ->
  forall (weak : list N -> N) (strong : list N -> H) (files : list (list N)) (fi : N),
    N.of_nat (length (sign_all_from bs weak strong fi files)) =
    fold_right (fun (f : list N) (acc : N) => (N.max 1 (num_blocks bs (N.of_nat (length f))) + acc)%N) 0%N files.
Proof. exact (@sign_all_count). Qed.
Print Assumptions signature_count.

(** The signature file stores only (weak, strong); ReadSignature re-derives file index, block
    index and ShortSize from the container's sizes and gets back exactly the signature. *)
Theorem read_write_signature :
  forall (H : Type) (bs : N), (0 < bs)%N ->
  forall (weak : list N -> N) (strong : list N -> H) (files : list (list N)),
    read_signature bs (map (fun f : list N => N.of_nat (length f)) files)
                   (write_signature (sign_all bs weak strong files)) =
    sign_all bs weak strong files.
Proof. exact (@read_write_signature_lemma). Qed.
Print Assumptions read_write_signature.

(** ComputeHashInfo on such a signature: the count check passes and the group of every
    non-empty file is exactly the list of its block hashes; empty files have no group. *)
Theorem hashinfo_groups :
  forall (H : Type) (bs : N), (0 < bs)%N ->
  forall (weak : list N -> N) (strong : list N -> H) (files : list (list N)),
    compute_hash_info bs (map (fun f : list N => N.of_nat (length f)) files) (sign_all bs weak strong files) =
    HiOk (groups_from bs weak strong 0 files).
Proof. exact (@hashinfo_groups_lemma). Qed.
Print Assumptions hashinfo_groups.

Theorem hashinfo_group_of_file :
  forall (H : Type) (bs : N) (weak : list N -> N) (strong : list N -> H) (files : list (list N)) (fi : N) (i : nat) (f : list N),
    nth_error files i = Some f ->
    nth_error (groups_from bs weak strong fi files) i =
    Some match f with [] => None | _ :: _ => Some (sign_file bs weak strong (fi + N.of_nat i) f) end.
Proof. exact (@groups_from_nth). Qed.
Print Assumptions hashinfo_group_of_file.

(** Every pipe reader of the fan-out is served the upstream bytes in order; its runs of empty
    reads are at most one longer than the upstream reader's. *)
Theorem fanout_preserves_stream :
  forall maxE : nat, 1 <= maxE -> forall slice : nat, 0 < slice ->
  forall (chunks : list (list N)) (eofWithLast : bool),
    runs_ok (maxE - 1) (maxE - 1) chunks ->
    exists ws, fan_writes slice chunks eofWithLast = (ws, true) /\ concat ws = concat chunks /\ runs_ok maxE maxE ws.
Proof. exact (@fan_writes_spec_runs). Qed.
Print Assumptions fanout_preserves_stream.

(** Both producers: the signature written while diffing (the source read once, in the pool's
    chunking [srcs], through the fan-out) and read back equals what the stand-alone signer
    computes from the same contents read in any other chunking [srcs'] - and both are the
    reference signature.  The chunkings may contain empty reads: runs of at most [maxE] of
    them for the stand-alone signer, [maxE - 1] for the fan-out (which adds one of its own at
    the end of a file); chunkings without empty reads qualify ([chunkings_without_empty_reads]). *)
Theorem both_producers_agree :
  forall (H : Type) (bs : N), (0 < bs)%N ->
  forall (weak : list N -> N) (strong : list N -> H) (maxE : nat), 1 <= maxE ->
  forall slice : nat, 0 < slice ->
  forall srcs srcs' : list (list (list N) * bool),
    Forall (src_fan_ok maxE) srcs -> Forall (src_ok maxE) srcs' ->
    map src_content srcs = map src_content srcs' ->
    exists stream : list (N * H),
      diff_time_signature bs weak strong maxE slice srcs = Some stream /\
      (read_signature bs (map (fun s => N.of_nat (length (src_content s))) srcs) stream, SEof) =
      compute_signature bs weak strong maxE srcs' /\
      read_signature bs (map (fun s => N.of_nat (length (src_content s))) srcs) stream =
      sign_all bs weak strong (map src_content srcs).
Proof. exact (@both_producers_agree_lemma). Qed.
Print Assumptions both_producers_agree.

Theorem chunkings_without_empty_reads :
  forall (maxE : nat) (src : list (list N) * bool),
    src_nonempty src -> src_fan_ok maxE src /\ src_ok maxE src.
Proof. exact (fun maxE src Hne => conj (src_nonempty_fan_ok maxE src Hne) (runs_ok_nonempty maxE maxE (fst src) Hne)). Qed.
Print Assumptions chunkings_without_empty_reads.

(** Validating an undamaged copy against the signature read back from the build's own
    signature file, whatever the slicing of each file's bytes into writes: ComputeHashInfo
    succeeds, every marker produced is a healthy one, the fail-fast guardian returns no error
    and the wounds writer writes nothing.  ([seqb] is bytes.Equal on strong hashes.) *)
Theorem pristine_valid :
  forall (H : Type) (bs : N), (0 < bs)%N ->
  forall (weak : list N -> N) (strong : list N -> H) (seqb : H -> H -> bool),
    (forall h : H, seqb h h = true) ->
  forall (maxWound : Z) (files : list (list N)) (slicings : list (list (list N))),
    slicings_of files slicings ->
    let sizes := map (fun f : list N => N.of_nat (length f)) files in
    let sig := read_signature bs sizes (write_signature (sign_all bs weak strong files)) in
    exists wl : list wound,
      validate_tree bs weak strong seqb maxWound sizes sig slicings = Some wl /\
      Forall (fun w : wound => healthy w = true) wl /\ guardian wl = true /\ wounds_written wl = [].
Proof. exact (@pristine_valid_lemma). Qed.
Print Assumptions pristine_valid.

(** per file: one healthy marker per block *)
Theorem pristine_file_markers :
  forall (H : Type) (bs : N), (0 < bs)%N ->
  forall (weak : list N -> N) (strong : list N -> H) (seqb : H -> H -> bool),
    (forall h : H, seqb h h = true) ->
  forall (maxWound : Z) (files : list (list N)) (i : nat) (f : list N) (ws : list (list N)),
    nth_error files i = Some f -> concat ws = f ->
    let wl := validate_file bs weak strong seqb maxWound (groups_from bs weak strong 0 files) i (N.of_nat (length f)) ws in
    Forall (fun w : wound => healthy w = true) wl /\ length wl = length (blocks (N.to_nat bs) f).
Proof. exact (@validate_file_pristine). Qed.
Print Assumptions pristine_file_markers.

(** error mode of the validating pool (no wound channel): the signed content passes unchanged *)
Theorem pristine_passes_error_mode :
  forall (H : Type) (bs : N), (0 < bs)%N ->
  forall (weak : list N -> N) (strong : list N -> H) (seqb : H -> H -> bool),
    (forall h : H, seqb h h = true) ->
  forall (files : list (list N)) (i : nat) (f : list N) (ws : list (list N)),
    nth_error files i = Some f -> concat ws = f ->
    vpool_error (Z.of_N bs) (block_hash weak strong) (pair_eqb seqb) (group_of (groups_from bs weak strong 0 files) i) ws =
    (Done, length ws, blocks (N.to_nat bs) f).
Proof. exact (@ValidateProofs.pristine_passes_error_mode). Qed.
Print Assumptions pristine_passes_error_mode.

(** the weak hash in Go's wrapping uint32 arithmetic equals its running-sum form (the form the
    64 KiB correspondence cases evaluate) *)
Theorem weak_hash_forms :
  forall block : list N, (N.of_nat (length block) < 4294967296)%N -> beta_hash block = beta_prefix block.
Proof. exact (fun block _ => beta_hash_prefix block). Qed.
Print Assumptions weak_hash_forms.

(** ... for a block of any length: since Sig/Weak.v models the [uint32] subtraction
    [uint32(len(block)-1) - uint32(i)] exactly (it wraps), the length bound above is not needed *)
Theorem weak_hash_forms_any_length :
  forall block : list N, beta_hash block = beta_prefix block.
Proof. exact beta_hash_prefix. Qed.
Print Assumptions weak_hash_forms_any_length.

(** non-vacuity: bs = 2, files "abc", "", "de" read in chunkings with short reads (and one empty
    read); the diff-time stream read back is the reference signature (strong hash := block),
    and validating the files written in 1- and 2-byte writes yields healthy markers only *)
Example both_producers_example :
  let srcs := [([[1;2]%N; [3]%N], false); ([], false); ([[4]%N; [5]%N], true)] in
  let srcs' := [([[1]%N; []; [2;3]%N], true); ([[]], false); ([[4;5]%N], false)] in
  match diff_time_signature 2 beta_hash (fun b : list N => b) 100 3 srcs with
  | Some stream =>
    (read_signature 2 [3;0;2]%N stream, SEof) = compute_signature 2 beta_hash (fun b : list N => b) 100 srcs' /\
    map (fun h => (bh_file h, bh_block h, bh_short h)) (read_signature 2 [3;0;2]%N stream) =
    [(0,0,0); (0,1,1); (1,0,0); (2,0,0)]%N
  | None => False
  end.
Proof. vm_compute. split; reflexivity. Qed.

Example pristine_example :
  let files := [[1;2;3]%N; []; [4;5]%N] in
  validate_tree 2 beta_hash (fun b : list N => b) nlist_eqb 8%Z [3;0;2]%N
                (sign_all 2 beta_hash (fun b : list N => b) files)
                [[[1]%N; [2;3]%N]; []; [[4]%N; [5]%N]] =
  Some [mkwound WClosed 0 0 2; mkwound WClosed 0 2 3; mkwound WClosed 2 0 2]%Z.
Proof. vm_compute. reflexivity. Qed.

(** ** Added (Compose/ModelsAgree.v): the models C04 shares a Go function with agree

    wsync.βhash is modelled by Sig/Weak.v [beta_hash] (here) and by Wsync/Weak.v [bhash] /
    [weak_of] (C11, C08); wsync.CreateSignature by Sig/Sign.v (here: the scanner loop
    [create_signature] and the reference [sign_file]) and by Wsync/Sign.v [sign_file] (C11);
    [doOne] of pwr/validator.go by Sig/Validate.v [validate_file] (here) and
    by Val/FileVal.v [file_wounds] (C05).  Each has its own correspondence; these theorems tie
    the transcriptions to each other.  Stated in C04's file for the pairs C04/C11 and C04/C05.
    (blockvalidator.go / validatingpool.go exist once, Val/VPool.v: Sig/Validate.v,
    Val/FileVal.v, Val/Safekeeper.v and Compose/ValidateProtocol.v all import it.) *)
From Wharf Require Wsync.Weak Wsync.Library Wsync.Sign Val.FileVal
     Compose.ModelsAgreeHashProofs Compose.ModelsAgreeValidateProofs.

(** βhash: equal on EVERY block, whatever its length and the byte values (the C11 triple
    [(β, β1, β2)] is the C04 value and the 16-bit halves of the two sums).  Unconditional since
    Sig/Weak.v follows Go's wrapping [uint32] subtraction ([sub32]); the former hypothesis
    "at most 2^32 bytes" and the former counterexample [weak_hash_models_differ_beyond_u32] (a
    block of 2^32 + 1 bytes on which the old Sig/Weak.v said 65537 where Go says 1), which is now
    false, are gone *)
Theorem weak_hash_models_agree :
  forall block : list N,
    beta_hash block = Wsync.Weak.weak_of block /\
    Wsync.Weak.bhash block =
      (beta_hash block, low16 (fst (beta_loop (N.of_nat (length block)) 0 0 0 block)),
       low16 (snd (beta_loop (N.of_nat (length block)) 0 0 0 block))).
Proof. exact ModelsAgreeHashProofs.weak_hash_models_agree_lemma. Qed.
Print Assumptions weak_hash_models_agree.

(** the loop bodies at the former point of disagreement ([len = 2^32 + 1], index 1): both
    multiply the byte by 0, as Go does ([uint32(len-1)] is 0 and [0 - uint32(1) + 1] wraps to 0) *)
Example weak_hash_loops_agree_beyond_u32 :
  beta_loop 4294967297 1 0 0 [1%N] = (1%N, 0%N) /\ Wsync.Weak.bhash_loop 4294967297 1 [1%N] 0 0 = (1%N, 0%N).
Proof. exact ModelsAgreeHashProofs.weak_hash_loops_agree_beyond_u32_example. Qed.

(** CreateSignature: what C04's model of the code writes for a file - over any chunking the
    scanner tolerates - is C11's [sign_file] of the content ([bh_of_ent]: the same five fields in
    the other record), file by file and for a whole container.  Hypotheses: [0 < bs] and
    [bs <= 2^32] (for the weak hash) *)
Theorem create_signature_models_agree :
  forall (H : Type) (strong : list N -> H) (bs : N) (maxE : nat),
    (0 < bs)%N -> (bs <= 4294967296)%N ->
    (forall (fileIndex : N) (chunks : list (list N)) (eofWithLast : bool),
       runs_ok maxE maxE chunks ->
       create_signature bs beta_hash strong maxE fileIndex chunks eofWithLast =
       (map ModelsAgreeHashProofs.bh_of_ent (Wsync.Sign.sign_file strong bs fileIndex (concat chunks)), SEof)) /\
    (forall (fileIndex : N) (content : list N),
       map ModelsAgreeHashProofs.bh_of_ent (Wsync.Sign.sign_file strong bs fileIndex content) =
       sign_file bs beta_hash strong fileIndex content) /\
    (forall (olds : list (list N)),
       map ModelsAgreeHashProofs.bh_of_ent (Wsync.Sign.sign_all strong bs 0 olds) = sign_all bs beta_hash strong olds).
Proof. exact (fun H strong bs maxE Hpos _ => ModelsAgreeHashProofs.create_signature_models_agree_lemma H strong bs maxE Hpos). Qed.
Print Assumptions create_signature_models_agree.

(** ... and without the bound on the block size, which only the weak hash of the old Sig/Weak.v needed *)
Theorem create_signature_models_agree_any_block_size :
  forall (H : Type) (strong : list N -> H) (bs : N) (maxE : nat),
    (0 < bs)%N ->
    (forall (fileIndex : N) (chunks : list (list N)) (eofWithLast : bool),
       runs_ok maxE maxE chunks ->
       create_signature bs beta_hash strong maxE fileIndex chunks eofWithLast =
       (map ModelsAgreeHashProofs.bh_of_ent (Wsync.Sign.sign_file strong bs fileIndex (concat chunks)), SEof)) /\
    (forall (fileIndex : N) (content : list N),
       map ModelsAgreeHashProofs.bh_of_ent (Wsync.Sign.sign_file strong bs fileIndex content) =
       sign_file bs beta_hash strong fileIndex content) /\
    (forall (olds : list (list N)),
       map ModelsAgreeHashProofs.bh_of_ent (Wsync.Sign.sign_all strong bs 0 olds) = sign_all bs beta_hash strong olds).
Proof. exact ModelsAgreeHashProofs.create_signature_models_agree_lemma. Qed.
Print Assumptions create_signature_models_agree_any_block_size.

(** [doOne]: C04's [validate_file] against the groups of a real signature and C05's
    [file_wounds] against the signed content give the same wounds for EVERY content of the file
    on disk - shorter, equal in length, or longer than the signed one.  Unconditional since
    Sig/Validate.v orders the bounds of the size wound as the code does (repo commit ccb6315);
    the former hypothesis "not longer than signed" and the former counterexample
    [validate_file_models_differ_on_longer_file], now false, are gone.  The damaged-file
    behaviour of Sig/Validate.v is thereby C05's, whose correspondence group [val] compares it
    with Go; C04's own group [vfile] compares [validate_tree] with Go on shorter / longer /
    damaged files as well *)
Theorem validate_file_models_agree :
  forall (H : Type) (bs : N) (weak : list N -> N) (strong : list N -> H) (seqb : H -> H -> bool) (maxWound : Z)
         (files : list (list N)) (i : nat) (signed content : list N),
    nth_error files i = Some signed ->
    validate_file bs weak strong seqb maxWound (groups_from bs weak strong 0 files) i (N.of_nat (length signed)) [content] =
    Val.FileVal.file_wounds (Z.of_N bs) maxWound (block_hash weak strong) (pair_eqb seqb) (Z.of_nat i) signed
                            (Val.FileVal.OFile content).
Proof. exact ModelsAgreeValidateProofs.validate_file_models_agree_lemma. Qed.
Print Assumptions validate_file_models_agree.

(** the former counterexample: signed [1;2], on disk [1;2;3], block size 2 - both models now
    give the size wound (2, 3) *)
Example validate_file_longer_file :
  let weak := fun _ : list N => 0%N in
  let strong := fun b : list N => b in
  validate_file 2 weak strong nlist_eqb 100 (groups_from 2 weak strong 0 [[1; 2]%N]) 0 2 [[1; 2; 3]%N] =
    [mkwound WClosed 0 0 2; mkwound WFile 0 2 2; mkwound WFile 0 2 3]%Z /\
  Val.FileVal.file_wounds 2 100 (block_hash weak strong) (pair_eqb nlist_eqb) 0 [1; 2]%N (Val.FileVal.OFile [1; 2; 3]%N) =
    [mkwound WClosed 0 0 2; mkwound WFile 0 2 2; mkwound WFile 0 2 3]%Z.
Proof. exact ModelsAgreeValidateProofs.validate_file_longer_file_example. Qed.

(** pwr.ComputeHashInfo: this property's [compute_hash_info] (Sig/HashInfo.v) against C10's
    [hash_info] (Patch/Malformed.v: outcome class; [fx] = the code before / after repo commit
    6a06397, [cap] = capacity of the hash slice, at least its length).  (1) The outcome class is
    that of the code as it is ([fx = true]) for every input - in particular a signature with
    fewer hashes than the files need is an error in both (Sig/HashInfo.v used to say [HiPanic]
    there, the code before the commit; repaired, and the former
    [hash_info_models_differ_on_missing_hashes], now false, is gone); (2) where the model says
    [HiOk] the code before the fix succeeded too; (3) the two versions of the code only differ
    where the model says [HiErr] *)
From Wharf Require Patch.Malformed Compose.ModelsAgreeHashInfoProofs.

Theorem hash_info_models_agree :
  forall (X : Type) (bs : N) (sizes : list N) (hashes : list X),
    (0 < bs)%N ->
    let n := Z.of_nat (length hashes) in
    (forall cap, (n <= cap)%Z ->
       Malformed.hash_info true (Z.of_N bs) (map Z.of_N sizes) 0 n cap =
       match compute_hash_info bs sizes hashes with HiOk _ => Malformed.Ok | HiErr => Malformed.Err end) /\
    (forall gs, compute_hash_info bs sizes hashes = HiOk gs ->
       forall fx cap, (n <= cap)%Z -> Malformed.hash_info fx (Z.of_N bs) (map Z.of_N sizes) 0 n cap = Malformed.Ok) /\
    (forall cap, (n <= cap)%Z ->
       Malformed.hash_info false (Z.of_N bs) (map Z.of_N sizes) 0 n cap <>
       Malformed.hash_info true (Z.of_N bs) (map Z.of_N sizes) 0 n cap ->
       compute_hash_info bs sizes hashes = HiErr).
Proof. exact ModelsAgreeHashInfoProofs.hash_info_models_agree_lemma. Qed.
Print Assumptions hash_info_models_agree.

(** the former counterexample: two files of 2 bytes at block size 2 and a single hash - an error
    in this model and in the code now; the code before the fix panicked *)
Example hash_info_missing_hashes :
  compute_hash_info 2 [2; 2]%N [tt] = HiErr /\
  Malformed.hash_info true 2 [2; 2]%Z 0 1 1 = Malformed.Err /\
  Malformed.hash_info false 2 [2; 2]%Z 0 1 1 = Malformed.Panic Malformed.SHashInfoSlice.
Proof. exact ModelsAgreeHashInfoProofs.hash_info_missing_hashes_example. Qed.
