(** C03 — interrupted patch application resumes from any checkpoint to the same result.
    Only statements, [exact], and [Print Assumptions]; the model is Patch/Resume.v (the
    patcher as a machine over the message list, checkpoints as values, the disk of working
    files), the proofs are in Patch/ResumeProofs.v (simulation against the uninterrupted
    run), Patch/ResumeLive.v (liveness), Patch/PlainWriter.v (the fresh bowl's entry writer
    satisfies the writer contract), Patch/ResumeExample.v (a concrete instance).

    Reading guide.  [run sched stop s ms] is [Patcher.Resume] with a save consumer whose i-th
    [ShouldSave] answers [sched i] and whose j-th [Save] returns AfterSaveStop iff [stop j];
    [start_state d0] is a brand-new patcher and bowl on directory [d0]; [run_resumed sched
    stop ck d' msgs] is a brand-new patcher and bowl on directory [d'] resuming from the
    checkpoint value [ck]; [offered msgs d0 ck d] says that [ck] was handed to the consumer,
    with the disk being [d] at that moment, by the first run or by any run resumed (through
    any chain of crashes and resumes, under any save consumers) from an offered checkpoint;
    [crash_ok ck d d'] is the crash model: [d'] agrees with [d] on what the checkpoint covers
    (completed files, the covered region of the in-progress file) and is arbitrary elsewhere;
    [commit] is what Commit makes of the working files, per source file.
    Hypotheses that stay visible: the uninterrupted run completes and the patch respects the
    declared file sizes ([sized_run]) - i.e. the patch is one the differ can produce; the
    entry writers satisfy [writer_ok] (proved for the fresh bowl below; for the overlay entry
    writer this is C14's "sessions" statement); [ReadContext.Resume] restarts at the reader
    offset of the checkpoint (C13). *)
From Wharf Require Import Base.Prelude Patch.Resume Patch.ResumeProofs Patch.ResumeLive Patch.PlainWriter Patch.OverlayBowl Patch.FreshLater Patch.ResumeExample.

(** Safety, any bowl whose entry writers satisfy the contract: resuming from any offered
    checkpoint on any crash disk, under any save consumer of the resumed run, either completes
    and Commit yields exactly what it yields after the uninterrupted application, or returns
    ErrStop because the consumer asked for it (at a checkpoint that is [offered] again, so the
    statement applies to chains of any length). *)
Theorem resume_equiv :
  forall (D C RAW WS WCK : Type) (dlen : D -> N) (blocksize : N) (tsize ssize : N -> N) (nfiles : N)
         (range_data : N -> N -> N -> D) (bs_data : N -> Z -> D -> D -> D)
         (w_open : N -> option (N * WCK) -> RAW -> option (WS * RAW)) (w_write : N -> WS -> RAW -> D -> WS * RAW)
         (w_save : N -> WS -> RAW -> N * WCK * WS * RAW) (w_final : N -> WS -> RAW -> RAW) (w_tell : WS -> N)
         (w_result : N -> RAW -> option C) (fresh : bool) (is_overlay : N -> bool) (prepare : N -> RAW -> RAW)
         (copy_old : N -> RAW) (old_content : N -> C) (emit : nat -> bool) (src_resume : nat -> nat -> option nat)
         (capp : C -> D -> C) (cnil : C) (w_abs : N -> WS -> RAW -> C) (winv : N -> WS -> RAW -> Prop)
         (raw_ok : N -> RAW -> Prop) (covers : N -> N * WCK -> RAW -> RAW -> Prop) (finished : N -> RAW -> C -> Prop),
    writer_ok D C RAW WS WCK dlen tsize ssize w_open w_write w_save w_final w_tell w_result fresh prepare copy_old
              old_content capp cnil w_abs winv raw_ok covers finished ->
    (forall off src : nat, src <= off -> src_resume off src = Some off) ->
    forall (msgs : list (msg D)) (d0 : N -> RAW) (Sf : state RAW WS WCK),
    run D RAW WS WCK dlen blocksize tsize ssize nfiles range_data bs_data w_open w_write w_save w_final w_tell
        fresh is_overlay copy_old emit (fun _ => false) (fun _ => false)
        (start_state RAW WS WCK fresh prepare d0) msgs = Finished RAW WS WCK Sf ->
    sized_run D RAW WS WCK dlen blocksize tsize ssize nfiles range_data bs_data w_open w_write w_save w_final
              w_tell fresh is_overlay copy_old emit (start_state RAW WS WCK fresh prepare d0) msgs ->
    (forall g : N, raw_ok g (bowl_create RAW fresh prepare d0 g)) ->
    forall (ck : ckpt WCK) (d d' : N -> RAW) (sched stop : nat -> bool),
    offered D RAW WS WCK dlen blocksize tsize ssize nfiles range_data bs_data w_open w_write w_save w_final w_tell
            fresh is_overlay prepare copy_old emit src_resume raw_ok covers msgs d0 ck d ->
    crash_ok RAW WCK fresh prepare raw_ok covers ck d d' ->
    match run_resumed D RAW WS WCK dlen blocksize tsize ssize nfiles range_data bs_data w_open w_write w_save
                      w_final w_tell fresh is_overlay prepare copy_old emit src_resume sched stop ck d' msgs with
    | Finished _ _ _ sf => commit C RAW WS WCK nfiles w_result fresh old_content sf =
                           commit C RAW WS WCK nfiles w_result fresh old_content Sf
    | Stopped _ _ _ _ => exists j : nat, stop j = true
    | _ => False
    end.
Proof. exact resume_equiv_lemma. Qed.
Print Assumptions resume_equiv.

(** ... in particular a resumed run that is not asked to stop returns nil and commits to the
    uninterrupted result, whichever [ShouldSave] calls answer true. *)
Theorem resume_completes :
  forall (D C RAW WS WCK : Type) (dlen : D -> N) (blocksize : N) (tsize ssize : N -> N) (nfiles : N)
         (range_data : N -> N -> N -> D) (bs_data : N -> Z -> D -> D -> D)
         (w_open : N -> option (N * WCK) -> RAW -> option (WS * RAW)) (w_write : N -> WS -> RAW -> D -> WS * RAW)
         (w_save : N -> WS -> RAW -> N * WCK * WS * RAW) (w_final : N -> WS -> RAW -> RAW) (w_tell : WS -> N)
         (w_result : N -> RAW -> option C) (fresh : bool) (is_overlay : N -> bool) (prepare : N -> RAW -> RAW)
         (copy_old : N -> RAW) (old_content : N -> C) (emit : nat -> bool) (src_resume : nat -> nat -> option nat)
         (capp : C -> D -> C) (cnil : C) (w_abs : N -> WS -> RAW -> C) (winv : N -> WS -> RAW -> Prop)
         (raw_ok : N -> RAW -> Prop) (covers : N -> N * WCK -> RAW -> RAW -> Prop) (finished : N -> RAW -> C -> Prop),
    writer_ok D C RAW WS WCK dlen tsize ssize w_open w_write w_save w_final w_tell w_result fresh prepare copy_old
              old_content capp cnil w_abs winv raw_ok covers finished ->
    (forall off src : nat, src <= off -> src_resume off src = Some off) ->
    forall (msgs : list (msg D)) (d0 : N -> RAW) (Sf : state RAW WS WCK),
    run D RAW WS WCK dlen blocksize tsize ssize nfiles range_data bs_data w_open w_write w_save w_final w_tell
        fresh is_overlay copy_old emit (fun _ => false) (fun _ => false)
        (start_state RAW WS WCK fresh prepare d0) msgs = Finished RAW WS WCK Sf ->
    sized_run D RAW WS WCK dlen blocksize tsize ssize nfiles range_data bs_data w_open w_write w_save w_final
              w_tell fresh is_overlay copy_old emit (start_state RAW WS WCK fresh prepare d0) msgs ->
    (forall g : N, raw_ok g (bowl_create RAW fresh prepare d0 g)) ->
    forall (ck : ckpt WCK) (d d' : N -> RAW) (sched : nat -> bool),
    offered D RAW WS WCK dlen blocksize tsize ssize nfiles range_data bs_data w_open w_write w_save w_final w_tell
            fresh is_overlay prepare copy_old emit src_resume raw_ok covers msgs d0 ck d ->
    crash_ok RAW WCK fresh prepare raw_ok covers ck d d' ->
    outcome_of C RAW WS WCK nfiles w_result fresh old_content
      (run_resumed D RAW WS WCK dlen blocksize tsize ssize nfiles range_data bs_data w_open w_write w_save w_final
                   w_tell fresh is_overlay prepare copy_old emit src_resume sched (fun _ => false) ck d' msgs)
    = commit C RAW WS WCK nfiles w_result fresh old_content Sf.
Proof. exact resume_completes_lemma. Qed.
Print Assumptions resume_completes.

(** Saving is transparent: a first run whose consumer saves whenever it likes (flushes,
    syncs, checkpoints) and never stops commits to the same result as the run that never saves. *)
Theorem saving_transparent :
  forall (D C RAW WS WCK : Type) (dlen : D -> N) (blocksize : N) (tsize ssize : N -> N) (nfiles : N)
         (range_data : N -> N -> N -> D) (bs_data : N -> Z -> D -> D -> D)
         (w_open : N -> option (N * WCK) -> RAW -> option (WS * RAW)) (w_write : N -> WS -> RAW -> D -> WS * RAW)
         (w_save : N -> WS -> RAW -> N * WCK * WS * RAW) (w_final : N -> WS -> RAW -> RAW) (w_tell : WS -> N)
         (w_result : N -> RAW -> option C) (fresh : bool) (is_overlay : N -> bool) (prepare : N -> RAW -> RAW)
         (copy_old : N -> RAW) (old_content : N -> C) (emit : nat -> bool) (src_resume : nat -> nat -> option nat)
         (capp : C -> D -> C) (cnil : C) (w_abs : N -> WS -> RAW -> C) (winv : N -> WS -> RAW -> Prop)
         (raw_ok : N -> RAW -> Prop) (covers : N -> N * WCK -> RAW -> RAW -> Prop) (finished : N -> RAW -> C -> Prop),
    writer_ok D C RAW WS WCK dlen tsize ssize w_open w_write w_save w_final w_tell w_result fresh prepare copy_old
              old_content capp cnil w_abs winv raw_ok covers finished ->
    (forall off src : nat, src <= off -> src_resume off src = Some off) ->
    forall (msgs : list (msg D)) (d0 : N -> RAW) (Sf : state RAW WS WCK),
    run D RAW WS WCK dlen blocksize tsize ssize nfiles range_data bs_data w_open w_write w_save w_final w_tell
        fresh is_overlay copy_old emit (fun _ => false) (fun _ => false)
        (start_state RAW WS WCK fresh prepare d0) msgs = Finished RAW WS WCK Sf ->
    sized_run D RAW WS WCK dlen blocksize tsize ssize nfiles range_data bs_data w_open w_write w_save w_final
              w_tell fresh is_overlay copy_old emit (start_state RAW WS WCK fresh prepare d0) msgs ->
    (forall g : N, raw_ok g (bowl_create RAW fresh prepare d0 g)) ->
    forall sched : nat -> bool,
    outcome_of C RAW WS WCK nfiles w_result fresh old_content
      (run D RAW WS WCK dlen blocksize tsize ssize nfiles range_data bs_data w_open w_write w_save w_final w_tell
           fresh is_overlay copy_old emit sched (fun _ => false) (start_state RAW WS WCK fresh prepare d0) msgs)
    = commit C RAW WS WCK nfiles w_result fresh old_content Sf.
Proof. exact saving_transparent_lemma. Qed.
Print Assumptions saving_transparent.

(** [freshEntryWriter] (reopen without truncation, seek to the saved offset), the creation of a
    fresh bowl ([Prepare]: truncate to the final size) and [freshBowl.Transpose] satisfy the
    writer contract - so for fresh application ([fr = true]) the theorems above hold without
    that hypothesis. *)
Theorem fresh_writer_contract :
  forall (ssize tsize : N -> N) (old : N -> list byte),
    (forall t : N, length (old t) = N.to_nat (tsize t)) ->
    forall fr : bool,
    writer_ok (list byte) (list byte) (list byte) N unit (fun d : list byte => N.of_nat (length d)) tsize ssize
              p_open p_write p_save p_final p_tell p_result fr (p_prepare ssize) (p_copy_old old) old
              (fun c d : list byte => c ++ d) [] p_abs (p_inv ssize) (p_raw_ok ssize) p_covers (p_finished ssize).
Proof. exact plain_writer_ok. Qed.
Print Assumptions fresh_writer_contract.

(** In-place application: the overlay bowl hands out a [freshEntryWriter] on a stage file for
    a new path and an [overlayEntryWriter] for a path that exists in the old build
    ([d_open] ... [d_result] model that dispatch).  If the overlay entry writer satisfies the
    contract (C14: sessions continue each other at the saved (ReadOffset, OverlayOffset), the
    end marker hides stale bytes), so does the bowl's writer - hence [resume_equiv],
    [resume_completes] and [saving_transparent] hold for in-place application with that one
    hypothesis about the overlay writer. *)
Theorem overlay_bowl_writer_contract :
  forall (WS2 WCK2 : Type) (is_overlay : N -> bool) (tsize ssize : N -> N) (old : N -> list byte)
         (o2 : N -> option (N * WCK2) -> list byte -> option (WS2 * list byte))
         (wr2 : N -> WS2 -> list byte -> list byte -> WS2 * list byte)
         (sv2 : N -> WS2 -> list byte -> (N * WCK2) * WS2 * list byte)
         (fi2 : N -> WS2 -> list byte -> list byte) (te2 : WS2 -> N) (re2 : N -> list byte -> option (list byte))
         (abs2 : N -> WS2 -> list byte -> list byte) (inv2 : N -> WS2 -> list byte -> Prop) (ok2 : N -> list byte -> Prop)
         (cov2 : N -> N * WCK2 -> list byte -> list byte -> Prop) (fin2 : N -> list byte -> list byte -> Prop),
    (forall t, length (old t) = N.to_nat (tsize t)) ->
    writer_ok (list byte) (list byte) (list byte) WS2 WCK2 (fun d => N.of_nat (length d)) tsize ssize o2 wr2 sv2 fi2 te2 re2 false
              (p_prepare ssize) (p_copy_old old) old (fun c d => c ++ d) [] abs2 inv2 ok2 cov2 fin2 ->
    writer_ok (list byte) (list byte) (list byte) (N + WS2) (unit + WCK2) (fun d => N.of_nat (length d)) tsize ssize
              (d_open _ _ _ _ _ is_overlay p_open o2) (d_write _ _ _ _ p_write wr2) (d_save _ _ _ _ _ p_save sv2)
              (d_final _ _ _ p_final fi2) (d_tell _ _ p_tell te2) (d_result _ _ is_overlay p_result re2) false
              (p_prepare ssize) (p_copy_old old) old (fun c d => c ++ d) []
              (d_abs _ _ _ _ p_abs abs2) (d_inv _ _ _ is_overlay (p_inv ssize) inv2) (d_raw_ok _ is_overlay (p_raw_ok ssize) ok2)
              (d_covers _ _ _ is_overlay p_covers cov2) (d_finished _ _ is_overlay (p_finished ssize) fin2).
Proof. exact overlay_bowl_writer_ok. Qed.
Print Assumptions overlay_bowl_writer_contract.

(** Safety for fresh application, bytes and all: if the crash disk still has the first
    [ck_woff] bytes of the in-progress output file (whatever follows them, whatever its length)
    and the output files of the earlier series, and anything at all everywhere else, then the
    resumed run - rsync and bsdiff series alike, any old build, any save consumer - ends with
    every output file equal, byte for byte, to the uninterrupted result, or stops on request. *)
Theorem resume_equiv_fresh :
  forall (blocksize : N) (tsize ssize : N -> N) (nfiles : N) (old : N -> list byte)
         (range_data : N -> N -> N -> list byte) (bs_data : N -> Z -> list byte -> list byte -> list byte)
         (is_overlay : N -> bool) (emit : nat -> bool) (src_resume : nat -> nat -> option nat),
    (forall t : N, length (old t) = N.to_nat (tsize t)) ->
    (forall off src : nat, src <= off -> src_resume off src = Some off) ->
    forall (msgs : list (msg (list byte))) (d0 : N -> list byte) (Sf : state (list byte) N unit),
    fresh_run blocksize tsize ssize nfiles old range_data bs_data is_overlay emit (fun _ => false) (fun _ => false)
              (fresh_start ssize d0) msgs = Finished (list byte) N unit Sf ->
    fresh_sized blocksize tsize ssize nfiles old range_data bs_data is_overlay emit (fresh_start ssize d0) msgs ->
    forall (ck : ckpt unit) (d d' : N -> list byte) (sched stop : nat -> bool),
    fresh_offered blocksize tsize ssize nfiles old range_data bs_data is_overlay emit src_resume msgs d0 ck d ->
    fresh_crash ck d d' ->
    match fresh_resumed blocksize tsize ssize nfiles old range_data bs_data is_overlay emit src_resume sched stop ck d' msgs with
    | Finished _ _ _ sf => forall g : N, (g < nfiles)%N -> s_disk (list byte) N unit sf g = s_disk (list byte) N unit Sf g
    | Stopped _ _ _ _ => exists j : nat, stop j = true
    | _ => False
    end.
Proof. exact resume_equiv_fresh_lemma. Qed.
Print Assumptions resume_equiv_fresh.

(** The crash model is not vacuous and contains what the property calls "stopping there or
    crashing any time later": along any run of fresh application ([reach]: any number of
    further steps, incl. the step that stops), the disk of that later moment is a legitimate
    crash disk ([fresh_crash]) for every checkpoint offered up to then - writes made after the
    checkpoint being wholly on disk; partly written or torn ones are covered by [fresh_crash]
    constraining nothing at or after the checkpointed offset. *)
Theorem crash_model_contains_later_states :
  forall (blocksize : N) (tsize ssize : N -> N) (old : N -> list byte)
         (range_data : N -> N -> N -> list byte) (bs_data : N -> Z -> list byte -> list byte -> list byte)
         (is_overlay : N -> bool) (emit sched stop : nat -> bool)
         (d0 : N -> list byte) (ms : list (msg (list byte))) (s : state (list byte) N unit)
         (ck : ckpt unit) (d : N -> list byte),
    reach blocksize tsize ssize old range_data bs_data is_overlay emit sched stop (fresh_start ssize d0) ms s ->
    In (ck, d) (s_offers (list byte) N unit s) ->
    fresh_crash ck d (s_disk (list byte) N unit s).
Proof. exact later_states_in_crash_model. Qed.
Print Assumptions crash_model_contains_later_states.

(** Liveness for a source that serves a pending request at its next read (the seek source)
    and a consumer that always asks to save: of any two consecutive iterations of a relay
    loop - rsync or bsdiff series - at least one hands a checkpoint to the consumer (so a
    series with two or more iterations never goes without one).  It is not every iteration:
    PopCheckpoint returns the reader to Idle after WantSave was already called in that
    iteration, so the source is only asked again one iteration later - the correspondence
    shows the implementation doing exactly that. *)
Theorem saves_happen :
  forall (D RAW WS WCK : Type) (dlen : D -> N) (blocksize : N) (tsize ssize : N -> N)
         (range_data : N -> N -> N -> D) (bs_data : N -> Z -> D -> D -> D)
         (w_open : N -> option (N * WCK) -> RAW -> option (WS * RAW)) (w_write : N -> WS -> RAW -> D -> WS * RAW)
         (w_save : N -> WS -> RAW -> N * WCK * WS * RAW) (w_final : N -> WS -> RAW -> RAW) (w_tell : WS -> N)
         (fresh : bool) (is_overlay : N -> bool) (copy_old : N -> RAW) (stop : nat -> bool)
         (s : state RAW WS WCK) (m : msg D) (s' : state RAW WS WCK) (m' : msg D) (r : result RAW WS WCK),
    in_loop WS (s_ph RAW WS WCK s) = true ->
    rd_inv (s_rd RAW WS WCK s) ->
    step D RAW WS WCK dlen blocksize tsize ssize range_data bs_data w_open w_write w_save w_final w_tell fresh
         is_overlay copy_old (fun _ => true) (fun _ => true) stop s m = Running RAW WS WCK s' ->
    in_loop WS (s_ph RAW WS WCK s') = true ->
    step D RAW WS WCK dlen blocksize tsize ssize range_data bs_data w_open w_write w_save w_final w_tell fresh
         is_overlay copy_old (fun _ => true) (fun _ => true) stop s' m' = r ->
    match r with
    | Running _ _ _ s'' | Stopped _ _ _ s'' => length (s_offers RAW WS WCK s) < length (s_offers RAW WS WCK s'')
    | _ => True
    end.
Proof. exact saves_happen_lemma. Qed.
Print Assumptions saves_happen.

(** ... and "a checkpoint at every iteration" (the reading planned in DESIGN.md) is refuted by
    the faithful model: four iterations, always-true consumer, seek source, two checkpoints. *)
Theorem saves_every_iteration_refuted :
  exists s, ex_first = Finished _ _ _ s /\ s_asked _ _ _ s = 4 /\ length (s_offers _ _ _ s) = 2.
Proof. exact saves_every_iteration_refuted_lemma. Qed.
Print Assumptions saves_every_iteration_refuted.

(** the reader invariant [saves_happen] asks for holds initially ([start_state], every
    [resume_state]: the reader is Idle) and is kept by every step *)
Theorem reader_invariant_kept :
  forall (D RAW WS WCK : Type) (dlen : D -> N) (blocksize : N) (tsize ssize : N -> N)
         (range_data : N -> N -> N -> D) (bs_data : N -> Z -> D -> D -> D)
         (w_open : N -> option (N * WCK) -> RAW -> option (WS * RAW)) (w_write : N -> WS -> RAW -> D -> WS * RAW)
         (w_save : N -> WS -> RAW -> N * WCK * WS * RAW) (w_final : N -> WS -> RAW -> RAW) (w_tell : WS -> N)
         (fresh : bool) (is_overlay : N -> bool) (copy_old : N -> RAW) (stop : nat -> bool)
         (s : state RAW WS WCK) (m : msg D) (s' : state RAW WS WCK),
    rd_inv (s_rd RAW WS WCK s) ->
    step D RAW WS WCK dlen blocksize tsize ssize range_data bs_data w_open w_write w_save w_final w_tell fresh
         is_overlay copy_old (fun _ => true) (fun _ => true) stop s m = Running RAW WS WCK s' ->
    rd_inv (s_rd RAW WS WCK s').
Proof. exact rd_inv_step. Qed.
Print Assumptions reader_invariant_kept.

(** Non-vacuity: a concrete patch (block size 4) for which every hypothesis of
    [resume_equiv_fresh] holds, a checkpoint offered in the middle of a file (6 of 9 bytes
    written, 3 messages read), a crash disk that lost one byte and carries garbage after the
    checkpointed offset, and the resumed run completing with the new file. *)
Example resume_nonvacuous :
  exists Sf,
    ex_run (fun _ => false) (fun _ => false) (fresh_start ex_ssize ex_d0) ex_msgs = Finished _ _ _ Sf /\
    fresh_sized 4 ex_tsize ex_ssize 1 ex_old ex_range ex_bs (fun _ => false) (fun _ => true) (fresh_start ex_ssize ex_d0) ex_msgs /\
    s_disk _ _ _ Sf 0%N = ex_new /\
    fresh_offered 4 ex_tsize ex_ssize 1 ex_old ex_range ex_bs (fun _ => false) (fun _ => true) ex_src_resume
                  ex_msgs ex_d0 (fst ex_offer) (snd ex_offer) /\
    ck_woff _ (fst ex_offer) = 6%N /\ mc_off (ck_msg _ (fst ex_offer)) = 3 /\
    fresh_crash (fst ex_offer) (snd ex_offer) ex_crash /\
    snd ex_offer 0%N = [9; 9; 1; 2; 3; 4; 0; 0; 0]%N /\
    exists sf, fresh_resumed 4 ex_tsize ex_ssize 1 ex_old ex_range ex_bs (fun _ => false) (fun _ => true) ex_src_resume
                 (fun _ => false) (fun _ => false) (fst ex_offer) ex_crash ex_msgs = Finished _ _ _ sf /\
               s_disk _ _ _ sf 0%N = ex_new.
Proof. exact resume_example_lemma. Qed.
Print Assumptions resume_nonvacuous.
