(** C03 — placeholder while the proofs are being written (replaced below). *)
From Wharf Require Import Base.Prelude Patch.Resume.
Example c03_placeholder : True. Proof. exact I. Qed.
Print Assumptions c03_placeholder.
