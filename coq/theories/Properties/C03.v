(** C03 — interrupted patch application resumes from any checkpoint to the same result.
    Only statements, [exact], and [Print Assumptions]; the model is Patch/Resume.v (the
    patcher as a machine over the message list, checkpoints as values, the disk of working
    files), the proofs are in Patch/ResumeProofs.v (simulation against the uninterrupted
    run), Patch/ResumeLive.v (liveness), Patch/PlainWriter.v (the fresh bowl's entry writer
    satisfies the writer contract), Patch/ResumeExample.v (a concrete instance).

    Reading guide.  [run sched stop s ms] is [Patcher.Resume] with a save consumer whose i-th
    [ShouldSave] answers [sched i] and whose j-th [Save] returns AfterSaveStop iff [stop j];
    [start_state d0] is a brand-new patcher and bowl on directory [d0]; [run_resumed sched
    stop ck d' msgs] is a brand-new patcher and bowl on directory [d'] resuming from the
    checkpoint value [ck]; [offered msgs d0 ck d] says that [ck] was handed to the consumer,
    with the disk being [d] at that moment, by the first run or by any run resumed (through
    any chain of crashes and resumes, under any save consumers) from an offered checkpoint;
    [crash_ok ck d d'] is the crash model: [d'] agrees with [d] on what the checkpoint covers
    (completed files, the covered region of the in-progress file) and is arbitrary elsewhere;
    [commit] is what Commit makes of the working files, per source file.
    Hypotheses that stay visible: the uninterrupted run completes and the patch respects the
    declared file sizes ([sized_run]) - i.e. the patch is one the differ can produce; the
    entry writers satisfy [writer_ok] (proved for the fresh bowl below; for the overlay entry
    writer this is C14's "sessions" statement); [ReadContext.Resume] restarts at the reader
    offset of the checkpoint (C13). *)
From Wharf Require Import Base.Prelude Patch.Resume Patch.ResumeProofs Patch.ResumeLive Patch.PlainWriter Patch.OverlayBowl Patch.FreshLater Patch.ResumeExample.

(** Safety, any bowl whose entry writers satisfy the contract: resuming from any offered
    checkpoint on any crash disk, under any save consumer of the resumed run, either completes
    and Commit yields exactly what it yields after the uninterrupted application, or returns
    ErrStop because the consumer asked for it (at a checkpoint that is [offered] again, so the
    statement applies to chains of any length). *)
Theorem resume_equiv :
  forall (D C RAW WS WCK : Type) (dlen : D -> N) (blocksize : N) (tsize ssize : N -> N) (nfiles : N)
         (range_data : N -> N -> N -> D) (bs_data : N -> Z -> D -> D -> D)
         (w_open : N -> option (N * WCK) -> RAW -> option (WS * RAW)) (w_write : N -> WS -> RAW -> D -> WS * RAW)
         (w_save : N -> WS -> RAW -> N * WCK * WS * RAW) (w_final : N -> WS -> RAW -> RAW) (w_tell : WS -> N)
         (w_result : N -> RAW -> option C) (fresh : bool) (is_overlay : N -> bool) (prepare : N -> RAW -> RAW)
         (copy_old : N -> RAW) (old_content : N -> C) (emit : nat -> bool) (src_resume : nat -> nat -> option nat)
         (capp : C -> D -> C) (cnil : C) (w_abs : N -> WS -> RAW -> C) (winv : N -> WS -> RAW -> Prop)
         (raw_ok : N -> RAW -> Prop) (covers : N -> N * WCK -> RAW -> RAW -> Prop) (finished : N -> RAW -> C -> Prop),
    writer_ok D C RAW WS WCK dlen tsize ssize w_open w_write w_save w_final w_tell w_result fresh prepare copy_old
              old_content capp cnil w_abs winv raw_ok covers finished ->
    (forall off src : nat, src <= off -> src_resume off src = Some off) ->
    forall (msgs : list (msg D)) (d0 : N -> RAW) (Sf : state RAW WS WCK),
    run D RAW WS WCK dlen blocksize tsize ssize nfiles range_data bs_data w_open w_write w_save w_final w_tell
        fresh is_overlay copy_old emit (fun _ => false) (fun _ => false)
        (start_state RAW WS WCK fresh prepare d0) msgs = Finished RAW WS WCK Sf ->
    sized_run D RAW WS WCK dlen blocksize tsize ssize nfiles range_data bs_data w_open w_write w_save w_final
              w_tell fresh is_overlay copy_old emit (start_state RAW WS WCK fresh prepare d0) msgs ->
    (forall g : N, raw_ok g (bowl_create RAW fresh prepare d0 g)) ->
    forall (ck : ckpt WCK) (d d' : N -> RAW) (sched stop : nat -> bool),
    offered D RAW WS WCK dlen blocksize tsize ssize nfiles range_data bs_data w_open w_write w_save w_final w_tell
            fresh is_overlay prepare copy_old emit src_resume raw_ok covers msgs d0 ck d ->
    crash_ok RAW WCK fresh prepare raw_ok covers ck d d' ->
    match run_resumed D RAW WS WCK dlen blocksize tsize ssize nfiles range_data bs_data w_open w_write w_save
                      w_final w_tell fresh is_overlay prepare copy_old emit src_resume sched stop ck d' msgs with
    | Finished _ _ _ sf => commit C RAW WS WCK nfiles w_result fresh old_content sf =
                           commit C RAW WS WCK nfiles w_result fresh old_content Sf
    | Stopped _ _ _ _ => exists j : nat, stop j = true
    | _ => False
    end.
Proof. exact resume_equiv_lemma. Qed.
Print Assumptions resume_equiv.

(** ... in particular a resumed run that is not asked to stop returns nil and commits to the
    uninterrupted result, whichever [ShouldSave] calls answer true. *)
Theorem resume_completes :
  forall (D C RAW WS WCK : Type) (dlen : D -> N) (blocksize : N) (tsize ssize : N -> N) (nfiles : N)
         (range_data : N -> N -> N -> D) (bs_data : N -> Z -> D -> D -> D)
         (w_open : N -> option (N * WCK) -> RAW -> option (WS * RAW)) (w_write : N -> WS -> RAW -> D -> WS * RAW)
         (w_save : N -> WS -> RAW -> N * WCK * WS * RAW) (w_final : N -> WS -> RAW -> RAW) (w_tell : WS -> N)
         (w_result : N -> RAW -> option C) (fresh : bool) (is_overlay : N -> bool) (prepare : N -> RAW -> RAW)
         (copy_old : N -> RAW) (old_content : N -> C) (emit : nat -> bool) (src_resume : nat -> nat -> option nat)
         (capp : C -> D -> C) (cnil : C) (w_abs : N -> WS -> RAW -> C) (winv : N -> WS -> RAW -> Prop)
         (raw_ok : N -> RAW -> Prop) (covers : N -> N * WCK -> RAW -> RAW -> Prop) (finished : N -> RAW -> C -> Prop),
    writer_ok D C RAW WS WCK dlen tsize ssize w_open w_write w_save w_final w_tell w_result fresh prepare copy_old
              old_content capp cnil w_abs winv raw_ok covers finished ->
    (forall off src : nat, src <= off -> src_resume off src = Some off) ->
    forall (msgs : list (msg D)) (d0 : N -> RAW) (Sf : state RAW WS WCK),
    run D RAW WS WCK dlen blocksize tsize ssize nfiles range_data bs_data w_open w_write w_save w_final w_tell
        fresh is_overlay copy_old emit (fun _ => false) (fun _ => false)
        (start_state RAW WS WCK fresh prepare d0) msgs = Finished RAW WS WCK Sf ->
    sized_run D RAW WS WCK dlen blocksize tsize ssize nfiles range_data bs_data w_open w_write w_save w_final
              w_tell fresh is_overlay copy_old emit (start_state RAW WS WCK fresh prepare d0) msgs ->
    (forall g : N, raw_ok g (bowl_create RAW fresh prepare d0 g)) ->
    forall (ck : ckpt WCK) (d d' : N -> RAW) (sched : nat -> bool),
    offered D RAW WS WCK dlen blocksize tsize ssize nfiles range_data bs_data w_open w_write w_save w_final w_tell
            fresh is_overlay prepare copy_old emit src_resume raw_ok covers msgs d0 ck d ->
    crash_ok RAW WCK fresh prepare raw_ok covers ck d d' ->
    outcome_of C RAW WS WCK nfiles w_result fresh old_content
      (run_resumed D RAW WS WCK dlen blocksize tsize ssize nfiles range_data bs_data w_open w_write w_save w_final
                   w_tell fresh is_overlay prepare copy_old emit src_resume sched (fun _ => false) ck d' msgs)
    = commit C RAW WS WCK nfiles w_result fresh old_content Sf.
Proof. exact resume_completes_lemma. Qed.
Print Assumptions resume_completes.

(** Saving is transparent: a first run whose consumer saves whenever it likes (flushes,
    syncs, checkpoints) and never stops commits to the same result as the run that never saves. *)
Theorem saving_transparent :
  forall (D C RAW WS WCK : Type) (dlen : D -> N) (blocksize : N) (tsize ssize : N -> N) (nfiles : N)
         (range_data : N -> N -> N -> D) (bs_data : N -> Z -> D -> D -> D)
         (w_open : N -> option (N * WCK) -> RAW -> option (WS * RAW)) (w_write : N -> WS -> RAW -> D -> WS * RAW)
         (w_save : N -> WS -> RAW -> N * WCK * WS * RAW) (w_final : N -> WS -> RAW -> RAW) (w_tell : WS -> N)
         (w_result : N -> RAW -> option C) (fresh : bool) (is_overlay : N -> bool) (prepare : N -> RAW -> RAW)
         (copy_old : N -> RAW) (old_content : N -> C) (emit : nat -> bool) (src_resume : nat -> nat -> option nat)
         (capp : C -> D -> C) (cnil : C) (w_abs : N -> WS -> RAW -> C) (winv : N -> WS -> RAW -> Prop)
         (raw_ok : N -> RAW -> Prop) (covers : N -> N * WCK -> RAW -> RAW -> Prop) (finished : N -> RAW -> C -> Prop),
    writer_ok D C RAW WS WCK dlen tsize ssize w_open w_write w_save w_final w_tell w_result fresh prepare copy_old
              old_content capp cnil w_abs winv raw_ok covers finished ->
    (forall off src : nat, src <= off -> src_resume off src = Some off) ->
    forall (msgs : list (msg D)) (d0 : N -> RAW) (Sf : state RAW WS WCK),
    run D RAW WS WCK dlen blocksize tsize ssize nfiles range_data bs_data w_open w_write w_save w_final w_tell
        fresh is_overlay copy_old emit (fun _ => false) (fun _ => false)
        (start_state RAW WS WCK fresh prepare d0) msgs = Finished RAW WS WCK Sf ->
    sized_run D RAW WS WCK dlen blocksize tsize ssize nfiles range_data bs_data w_open w_write w_save w_final
              w_tell fresh is_overlay copy_old emit (start_state RAW WS WCK fresh prepare d0) msgs ->
    (forall g : N, raw_ok g (bowl_create RAW fresh prepare d0 g)) ->
    forall sched : nat -> bool,
    outcome_of C RAW WS WCK nfiles w_result fresh old_content
      (run D RAW WS WCK dlen blocksize tsize ssize nfiles range_data bs_data w_open w_write w_save w_final w_tell
           fresh is_overlay copy_old emit sched (fun _ => false) (start_state RAW WS WCK fresh prepare d0) msgs)
    = commit C RAW WS WCK nfiles w_result fresh old_content Sf.
Proof. exact saving_transparent_lemma. Qed.
Print Assumptions saving_transparent.

(** [freshEntryWriter] (reopen without truncation, seek to the saved offset), the creation of a
    fresh bowl ([Prepare]: truncate to the final size) and [freshBowl.Transpose] satisfy the
    writer contract - so for fresh application ([fr = true]) the theorems above hold without
    that hypothesis. *)
Theorem fresh_writer_contract :
  forall (ssize tsize : N -> N) (old : N -> list byte),
    (forall t : N, length (old t) = N.to_nat (tsize t)) ->
    forall fr : bool,
    writer_ok (list byte) (list byte) (list byte) N unit (fun d : list byte => N.of_nat (length d)) tsize ssize
              p_open p_write p_save p_final p_tell p_result fr (p_prepare ssize) (p_copy_old old) old
              (fun c d : list byte => c ++ d) [] p_abs (p_inv ssize) (p_raw_ok ssize) p_covers (p_finished ssize).
Proof. exact plain_writer_ok. Qed.
Print Assumptions fresh_writer_contract.

(** In-place application: the overlay bowl hands out a [freshEntryWriter] on a stage file for
    a new path and an [overlayEntryWriter] for a path that exists in the old build
    ([d_open] ... [d_result] model that dispatch).  If the overlay entry writer satisfies the
    contract (C14: sessions continue each other at the saved (ReadOffset, OverlayOffset), the
    end marker hides stale bytes), so does the bowl's writer - hence [resume_equiv],
    [resume_completes] and [saving_transparent] hold for in-place application with that one
    hypothesis about the overlay writer. *)
Theorem overlay_bowl_writer_contract :
  forall (WS2 WCK2 : Type) (is_overlay : N -> bool) (tsize ssize : N -> N) (old : N -> list byte)
         (o2 : N -> option (N * WCK2) -> list byte -> option (WS2 * list byte))
         (wr2 : N -> WS2 -> list byte -> list byte -> WS2 * list byte)
         (sv2 : N -> WS2 -> list byte -> (N * WCK2) * WS2 * list byte)
         (fi2 : N -> WS2 -> list byte -> list byte) (te2 : WS2 -> N) (re2 : N -> list byte -> option (list byte))
         (abs2 : N -> WS2 -> list byte -> list byte) (inv2 : N -> WS2 -> list byte -> Prop) (ok2 : N -> list byte -> Prop)
         (cov2 : N -> N * WCK2 -> list byte -> list byte -> Prop) (fin2 : N -> list byte -> list byte -> Prop),
    (forall t, length (old t) = N.to_nat (tsize t)) ->
    writer_ok (list byte) (list byte) (list byte) WS2 WCK2 (fun d => N.of_nat (length d)) tsize ssize o2 wr2 sv2 fi2 te2 re2 false
              (p_prepare ssize) (p_copy_old old) old (fun c d => c ++ d) [] abs2 inv2 ok2 cov2 fin2 ->
    writer_ok (list byte) (list byte) (list byte) (N + WS2) (unit + WCK2) (fun d => N.of_nat (length d)) tsize ssize
              (d_open _ _ _ _ _ is_overlay p_open o2) (d_write _ _ _ _ p_write wr2) (d_save _ _ _ _ _ p_save sv2)
              (d_final _ _ _ p_final fi2) (d_tell _ _ p_tell te2) (d_result _ _ is_overlay p_result re2) false
              (p_prepare ssize) (p_copy_old old) old (fun c d => c ++ d) []
              (d_abs _ _ _ _ p_abs abs2) (d_inv _ _ _ is_overlay (p_inv ssize) inv2) (d_raw_ok _ is_overlay (p_raw_ok ssize) ok2)
              (d_covers _ _ _ is_overlay p_covers cov2) (d_finished _ _ is_overlay (p_finished ssize) fin2).
Proof. exact overlay_bowl_writer_ok. Qed.
Print Assumptions overlay_bowl_writer_contract.

(** Safety for fresh application, bytes and all: if the crash disk still has the first
    [ck_woff] bytes of the in-progress output file (whatever follows them, whatever its length)
    and the output files of the earlier series, and anything at all everywhere else, then the
    resumed run - rsync and bsdiff series alike, any old build, any save consumer - ends with
    every output file equal, byte for byte, to the uninterrupted result, or stops on request. *)
Theorem resume_equiv_fresh :
  forall (blocksize : N) (tsize ssize : N -> N) (nfiles : N) (old : N -> list byte)
         (range_data : N -> N -> N -> list byte) (bs_data : N -> Z -> list byte -> list byte -> list byte)
         (is_overlay : N -> bool) (emit : nat -> bool) (src_resume : nat -> nat -> option nat),
    (forall t : N, length (old t) = N.to_nat (tsize t)) ->
    (forall off src : nat, src <= off -> src_resume off src = Some off) ->
    forall (msgs : list (msg (list byte))) (d0 : N -> list byte) (Sf : state (list byte) N unit),
    fresh_run blocksize tsize ssize nfiles old range_data bs_data is_overlay emit (fun _ => false) (fun _ => false)
              (fresh_start ssize d0) msgs = Finished (list byte) N unit Sf ->
    fresh_sized blocksize tsize ssize nfiles old range_data bs_data is_overlay emit (fresh_start ssize d0) msgs ->
    forall (ck : ckpt unit) (d d' : N -> list byte) (sched stop : nat -> bool),
    fresh_offered blocksize tsize ssize nfiles old range_data bs_data is_overlay emit src_resume msgs d0 ck d ->
    fresh_crash ck d d' ->
    match fresh_resumed blocksize tsize ssize nfiles old range_data bs_data is_overlay emit src_resume sched stop ck d' msgs with
    | Finished _ _ _ sf => forall g : N, (g < nfiles)%N -> s_disk (list byte) N unit sf g = s_disk (list byte) N unit Sf g
    | Stopped _ _ _ _ => exists j : nat, stop j = true
    | _ => False
    end.
Proof. exact resume_equiv_fresh_lemma. Qed.
Print Assumptions resume_equiv_fresh.

(** The crash model is not vacuous and contains what the property calls "stopping there or
    crashing any time later": along any run of fresh application ([reach]: any number of
    further steps, incl. the step that stops), the disk of that later moment is a legitimate
    crash disk ([fresh_crash]) for every checkpoint offered up to then - writes made after the
    checkpoint being wholly on disk; partly written or torn ones are covered by [fresh_crash]
    constraining nothing at or after the checkpointed offset. *)
Theorem crash_model_contains_later_states :
  forall (blocksize : N) (tsize ssize : N -> N) (old : N -> list byte)
         (range_data : N -> N -> N -> list byte) (bs_data : N -> Z -> list byte -> list byte -> list byte)
         (is_overlay : N -> bool) (emit sched stop : nat -> bool)
         (d0 : N -> list byte) (ms : list (msg (list byte))) (s : state (list byte) N unit)
         (ck : ckpt unit) (d : N -> list byte),
    reach blocksize tsize ssize old range_data bs_data is_overlay emit sched stop (fresh_start ssize d0) ms s ->
    In (ck, d) (s_offers (list byte) N unit s) ->
    fresh_crash ck d (s_disk (list byte) N unit s).
Proof. exact later_states_in_crash_model. Qed.
Print Assumptions crash_model_contains_later_states.

(** Liveness for a source that serves a pending request at its next read (the seek source)
    and a consumer that always asks to save: of any two consecutive iterations of a relay
    loop - rsync or bsdiff series - at least one hands a checkpoint to the consumer (so a
    series with two or more iterations never goes without one).  It is not every iteration:
    PopCheckpoint returns the reader to Idle after WantSave was already called in that
    iteration, so the source is only asked again one iteration later - the correspondence
    shows the implementation doing exactly that. *)
Theorem saves_happen :
  forall (D RAW WS WCK : Type) (dlen : D -> N) (blocksize : N) (tsize ssize : N -> N)
         (range_data : N -> N -> N -> D) (bs_data : N -> Z -> D -> D -> D)
         (w_open : N -> option (N * WCK) -> RAW -> option (WS * RAW)) (w_write : N -> WS -> RAW -> D -> WS * RAW)
         (w_save : N -> WS -> RAW -> N * WCK * WS * RAW) (w_final : N -> WS -> RAW -> RAW) (w_tell : WS -> N)
         (fresh : bool) (is_overlay : N -> bool) (copy_old : N -> RAW) (stop : nat -> bool)
         (s : state RAW WS WCK) (m : msg D) (s' : state RAW WS WCK) (m' : msg D) (r : result RAW WS WCK),
    in_loop WS (s_ph RAW WS WCK s) = true ->
    rd_inv (s_rd RAW WS WCK s) ->
    step D RAW WS WCK dlen blocksize tsize ssize range_data bs_data w_open w_write w_save w_final w_tell fresh
         is_overlay copy_old (fun _ => true) (fun _ => true) stop s m = Running RAW WS WCK s' ->
    in_loop WS (s_ph RAW WS WCK s') = true ->
    step D RAW WS WCK dlen blocksize tsize ssize range_data bs_data w_open w_write w_save w_final w_tell fresh
         is_overlay copy_old (fun _ => true) (fun _ => true) stop s' m' = r ->
    match r with
    | Running _ _ _ s'' | Stopped _ _ _ s'' => length (s_offers RAW WS WCK s) < length (s_offers RAW WS WCK s'')
    | _ => True
    end.
Proof. exact saves_happen_lemma. Qed.
Print Assumptions saves_happen.

(** ... and "a checkpoint at every iteration" (the reading planned in DESIGN.md) is refuted by
    the faithful model: four iterations, always-true consumer, seek source, two checkpoints. *)
Theorem saves_every_iteration_refuted :
  exists s, ex_first = Finished _ _ _ s /\ s_asked _ _ _ s = 4 /\ length (s_offers _ _ _ s) = 2.
Proof. exact saves_every_iteration_refuted_lemma. Qed.
Print Assumptions saves_every_iteration_refuted.

(** the reader invariant [saves_happen] asks for holds initially ([start_state], every
    [resume_state]: the reader is Idle) and is kept by every step *)
Theorem reader_invariant_kept :
  forall (D RAW WS WCK : Type) (dlen : D -> N) (blocksize : N) (tsize ssize : N -> N)
         (range_data : N -> N -> N -> D) (bs_data : N -> Z -> D -> D -> D)
         (w_open : N -> option (N * WCK) -> RAW -> option (WS * RAW)) (w_write : N -> WS -> RAW -> D -> WS * RAW)
         (w_save : N -> WS -> RAW -> N * WCK * WS * RAW) (w_final : N -> WS -> RAW -> RAW) (w_tell : WS -> N)
         (fresh : bool) (is_overlay : N -> bool) (copy_old : N -> RAW) (stop : nat -> bool)
         (s : state RAW WS WCK) (m : msg D) (s' : state RAW WS WCK),
    rd_inv (s_rd RAW WS WCK s) ->
    step D RAW WS WCK dlen blocksize tsize ssize range_data bs_data w_open w_write w_save w_final w_tell fresh
         is_overlay copy_old (fun _ => true) (fun _ => true) stop s m = Running RAW WS WCK s' ->
    rd_inv (s_rd RAW WS WCK s').
Proof. exact rd_inv_step. Qed.
Print Assumptions reader_invariant_kept.

(** Non-vacuity: a concrete patch (block size 4) for which every hypothesis of
    [resume_equiv_fresh] holds, a checkpoint offered in the middle of a file (6 of 9 bytes
    written, 3 messages read), a crash disk that lost one byte and carries garbage after the
    checkpointed offset, and the resumed run completing with the new file. *)
Example resume_nonvacuous :
  exists Sf,
    ex_run (fun _ => false) (fun _ => false) (fresh_start ex_ssize ex_d0) ex_msgs = Finished _ _ _ Sf /\
    fresh_sized 4 ex_tsize ex_ssize 1 ex_old ex_range ex_bs (fun _ => false) (fun _ => true) (fresh_start ex_ssize ex_d0) ex_msgs /\
    s_disk _ _ _ Sf 0%N = ex_new /\
    fresh_offered 4 ex_tsize ex_ssize 1 ex_old ex_range ex_bs (fun _ => false) (fun _ => true) ex_src_resume
                  ex_msgs ex_d0 (fst ex_offer) (snd ex_offer) /\
    ck_woff _ (fst ex_offer) = 6%N /\ mc_off (ck_msg _ (fst ex_offer)) = 3 /\
    fresh_crash (fst ex_offer) (snd ex_offer) ex_crash /\
    snd ex_offer 0%N = [9; 9; 1; 2; 3; 4; 0; 0; 0]%N /\
    exists sf, fresh_resumed 4 ex_tsize ex_ssize 1 ex_old ex_range ex_bs (fun _ => false) (fun _ => true) ex_src_resume
                 (fun _ => false) (fun _ => false) (fst ex_offer) ex_crash ex_msgs = Finished _ _ _ sf /\
               s_disk _ _ _ sf 0%N = ex_new.
Proof. exact resume_example_lemma. Qed.
Print Assumptions resume_nonvacuous.

(** * The two cross-property hypotheses discharged inside Coq (Compose/Resume*.v)

    [resume_equiv] above keeps two hypotheses that are other properties' business: [H_wire]
    (C13) and [writer_ok] for the overlay entry writer (C14).  Below they are proved for
    instances built from the C13 and C14 models, and [resume_equiv] is restated without them.

    Reader.  C03 counts messages, C13 counts bytes: [bnd k] is the byte offset after the first
    [k] frames, [idx_of] its inverse; the source checkpoint "handed out during the read of
    message p" is [src_event p] = the answer of the source behaviour [beh] for the read from
    [bnd p] to [bnd (S p)]; [emit_w] / [src_resume_w] instantiate C03's [emit] / [src_resume]
    ([src_resume_w off src] runs C13's [resume] on a brand-new reader over the written bytes
    and converts the offset it ends at back to an index). *)
From Wharf Require Import Wire.Frame Wire.FrameProofs Wire.Reader Wire.ReaderProofs Overlay.Writer Overlay.Patch Overlay.Codec
  Overlay.SessionProofs Compose.ResumeWire Compose.ResumeWireProofs Compose.ResumeWireInst
  Compose.ResumeOverlay Compose.ResumeOverlayProofs Compose.ResumeInst Compose.ResumeInstExample.

(** The C13 save-state automaton refines C03's message-granularity automaton: started in
    related states ([rd_rel]: same number of messages read, byte offset = their frames, same
    save state, same pending request, the held source checkpoint is the one C03's index names),
    under any schedule of WantSave / PopCheckpoint / ReadMessage that does not read past the
    last message, the two run in lockstep - the same requests are forwarded, the i-th read
    yields the i-th message, both pop or neither does and the popped checkpoints correspond
    through [ckpt_to_wire], and the states stay related.  Environment: the protobuf round trip
    and bodies below 2^56 bytes. *)
Theorem wire_reader_refines :
  forall (M : Type) (marshal : M -> list byte) (unmarshal : list byte -> option M),
    (forall m, unmarshal (marshal m) = Some m) ->
  forall msgs : list M, Forall (fits_msg marshal) msgs ->
  forall (beh : behaviour) (ops : list Reader.op) (a : Reader.reader) (b : Resume.reader),
    rd_rel marshal msgs beh a b -> reads_within msgs (Resume.r_pos b) ops ->
    Forall2 (fun x y => ev_rel marshal msgs beh (fst x) (fst y) /\ rd_rel marshal msgs beh (snd x) (snd y))
            (Reader.run unmarshal beh a ops) (run3 marshal msgs beh b ops).
Proof. exact @wire_refines. Qed.
Print Assumptions wire_reader_refines.

(** ... the relation holds between [NewReadContext] over the written bytes and the reader of
    [start_state], ... *)
Theorem wire_reader_initial :
  forall (M : Type) (marshal : M -> list byte) (msgs : list M) (beh : behaviour) (cap0 : N),
    rd_rel marshal msgs beh (new_reader cap0 (wire_data marshal msgs)) (Resume.mkrd 0 Resume.Idle false 0).
Proof. exact @rd_rel_init. Qed.
Print Assumptions wire_reader_initial.

(** ... and it contains the protocol invariant of either development: C13's [coherent] (the
    source has a pending request exactly while the reader waits) and the [rd_inv] that
    [saves_happen] / [reader_invariant_kept] ask for. *)
Theorem wire_reader_invariants :
  forall (M : Type) (marshal : M -> list byte) (msgs : list M) (beh : behaviour) (a : Reader.reader) (b : Resume.reader),
    rd_rel marshal msgs beh a b -> coherent a /\ rd_inv b.
Proof. exact @rd_rel_invariants. Qed.
Print Assumptions wire_reader_invariants.

(** [H_wire] for the instance, from C13 ([resume_good]: the resumption half of
    [checkpoint_resumes_exactly]): for every checkpoint the instance can produce - the source
    handed its part out during the read of an EARLIER message ([src < off], [emit_w src]) and
    the reader part is a position of the stream ([off <= length msgs]) - and every source
    within the contract, [ReadContext.Resume] restarts at the reader offset of the checkpoint. *)
Theorem wire_resume_restarts_at_checkpoint :
  forall (M : Type) (marshal : M -> list byte) (msgs : list M) (beh : behaviour) (cap0 : N),
    beh_sound beh ->
  forall off src : nat,
    wf_mc marshal msgs beh (Resume.mkmc off src) ->
    src_resume_w marshal msgs beh cap0 off src = Some off.
Proof. exact @src_resume_w_ok. Qed.
Print Assumptions wire_resume_restarts_at_checkpoint.

(** ... and wherever [src_resume_w] says reading restarts, the resumed C13 reader yields
    exactly the messages [run_resumed] feeds the patcher ([skipn p msgs]), then end of stream,
    whatever sound source the resumed run has; and it is again related to the reader of
    [resume_state]. *)
Theorem wire_resume_yields_unread :
  forall (M : Type) (marshal : M -> list byte) (unmarshal : list byte -> option M),
    (forall m, unmarshal (marshal m) = Some m) ->
  forall msgs : list M, Forall (fits_msg marshal) msgs ->
  forall (beh : behaviour) (cap0 : N) (off src p : nat),
    src_resume_w marshal msgs beh cap0 off src = Some p ->
    exists (c : msg_ckpt) (r' : Reader.reader),
      ckpt_to_wire marshal msgs beh (Resume.mkmc off src) = Some c /\
      Reader.resume (new_reader cap0 (wire_data marshal msgs)) (Some c) = Some r' /\
      rd_rel marshal msgs beh r' (Resume.mkrd p Resume.Idle false 0) /\
      forall beh2, beh_sound beh2 -> read_all unmarshal beh2 r' = (skipn p msgs, EEOF).
Proof. exact @src_resume_w_yields. Qed.
Print Assumptions wire_resume_yields_unread.

(** [H_wire] as stated in [resume_equiv] ranges over ALL pairs [src <= off]; C13 answers only
    for the pairs above.  That is enough: every checkpoint the patcher hands to its consumer,
    through any chain of crashes and resumes, is such a pair (an invariant of [run]: the
    reader pops after the read during which the source answered has returned). *)
Theorem offered_checkpoints_are_resumable :
  forall (D RAW WS WCK : Type) (dlen : D -> N) (blocksize : N) (tsize ssize : N -> N) (nfiles : N)
         (range_data : N -> N -> N -> D) (bs_data : N -> Z -> D -> D -> D)
         (w_open : N -> option (N * WCK) -> RAW -> option (WS * RAW)) (w_write : N -> WS -> RAW -> D -> WS * RAW)
         (w_save : N -> WS -> RAW -> N * WCK * WS * RAW) (w_final : N -> WS -> RAW -> RAW) (w_tell : WS -> N)
         (fresh : bool) (is_overlay : N -> bool) (prepare : N -> RAW -> RAW) (copy_old : N -> RAW)
         (raw_ok : N -> RAW -> Prop) (covers : N -> N * WCK -> RAW -> RAW -> Prop)
         (marshal : msg D -> list byte) (beh : behaviour),
    beh_sound beh ->
  forall (cap0 : N) (msgs : list (msg D)) (d0 : N -> RAW) (ck : ckpt WCK) (d : N -> RAW),
    offered D RAW WS WCK dlen blocksize tsize ssize nfiles range_data bs_data w_open w_write w_save w_final w_tell
            fresh is_overlay prepare copy_old (emit_w marshal msgs beh) (src_resume_w marshal msgs beh cap0)
            raw_ok covers msgs d0 ck d ->
    wf_mc marshal msgs beh (ck_msg WCK ck).
Proof. exact offered_ckpt_wf. Qed.
Print Assumptions offered_checkpoints_are_resumable.

(** [resume_equiv] with the reader hypothesis discharged: the message reader is the wire
    reader of C13 over the framed message list, on any source within the contract
    [beh_sound]; any bowl whose entry writers satisfy [writer_ok]. *)
Theorem resume_equiv_wire_instance :
  forall (D RAW WS WCK : Type) (dlen : D -> N) (blocksize : N) (tsize ssize : N -> N) (nfiles : N)
         (range_data : N -> N -> N -> D) (bs_data : N -> Z -> D -> D -> D)
         (w_open : N -> option (N * WCK) -> RAW -> option (WS * RAW)) (w_write : N -> WS -> RAW -> D -> WS * RAW)
         (w_save : N -> WS -> RAW -> N * WCK * WS * RAW) (w_final : N -> WS -> RAW -> RAW) (w_tell : WS -> N)
         (fresh : bool) (is_overlay : N -> bool) (prepare : N -> RAW -> RAW) (copy_old : N -> RAW)
         (raw_ok : N -> RAW -> Prop) (covers : N -> N * WCK -> RAW -> RAW -> Prop)
         (marshal : msg D -> list byte) (beh : behaviour),
    beh_sound beh ->
  forall (cap0 : N) (msgs : list (msg D)) (d0 : N -> RAW)
         (C : Type) (w_result : N -> RAW -> option C) (old_content : N -> C) (capp : C -> D -> C) (cnil : C)
         (w_abs : N -> WS -> RAW -> C) (winv : N -> WS -> RAW -> Prop) (finished : N -> RAW -> C -> Prop),
    writer_ok D C RAW WS WCK dlen tsize ssize w_open w_write w_save w_final w_tell w_result fresh prepare copy_old
              old_content capp cnil w_abs winv raw_ok covers finished ->
  forall Sf : state RAW WS WCK,
    Resume.run D RAW WS WCK dlen blocksize tsize ssize nfiles range_data bs_data w_open w_write w_save w_final w_tell
        fresh is_overlay copy_old (emit_w marshal msgs beh) (fun _ => false) (fun _ => false)
        (start_state RAW WS WCK fresh prepare d0) msgs = Finished RAW WS WCK Sf ->
    sized_run D RAW WS WCK dlen blocksize tsize ssize nfiles range_data bs_data w_open w_write w_save w_final
              w_tell fresh is_overlay copy_old (emit_w marshal msgs beh) (start_state RAW WS WCK fresh prepare d0) msgs ->
    (forall g : N, raw_ok g (bowl_create RAW fresh prepare d0 g)) ->
  forall (ck : ckpt WCK) (d d' : N -> RAW) (sched stop : nat -> bool),
    offered D RAW WS WCK dlen blocksize tsize ssize nfiles range_data bs_data w_open w_write w_save w_final w_tell
            fresh is_overlay prepare copy_old (emit_w marshal msgs beh) (src_resume_w marshal msgs beh cap0)
            raw_ok covers msgs d0 ck d ->
    crash_ok RAW WCK fresh prepare raw_ok covers ck d d' ->
    match run_resumed D RAW WS WCK dlen blocksize tsize ssize nfiles range_data bs_data w_open w_write w_save
                      w_final w_tell fresh is_overlay prepare copy_old (emit_w marshal msgs beh)
                      (src_resume_w marshal msgs beh cap0) sched stop ck d' msgs with
    | Finished _ _ _ sf => Resume.commit C RAW WS WCK nfiles w_result fresh old_content sf =
                           Resume.commit C RAW WS WCK nfiles w_result fresh old_content Sf
    | Stopped _ _ _ _ => exists j : nat, stop j = true
    | _ => False
    end.
Proof. exact resume_equiv_wire_lemma. Qed.
Print Assumptions resume_equiv_wire_instance.

(** Liveness behind the wire reader: the source assumption of [saves_happen] ([emit] always
    true) is what C13's seek source does on every read of a message of the stream, so of any
    two consecutive relay iterations that read messages of the stream one delivers a checkpoint. *)
Theorem saves_happen_wire_seek :
  forall (D RAW WS WCK : Type) (dlen : D -> N) (blocksize : N) (tsize ssize : N -> N)
         (range_data : N -> N -> N -> D) (bs_data : N -> Z -> D -> D -> D)
         (w_open : N -> option (N * WCK) -> RAW -> option (WS * RAW)) (w_write : N -> WS -> RAW -> D -> WS * RAW)
         (w_save : N -> WS -> RAW -> N * WCK * WS * RAW) (w_final : N -> WS -> RAW -> RAW) (w_tell : WS -> N)
         (fresh : bool) (is_overlay : N -> bool) (copy_old : N -> RAW)
         (marshal : msg D -> list byte) (msgs : list (msg D)) (stop : nat -> bool)
         (s : state RAW WS WCK) (m : msg D) (s' : state RAW WS WCK) (m' : msg D) (r : result RAW WS WCK),
    in_loop WS (s_ph RAW WS WCK s) = true ->
    rd_inv (s_rd RAW WS WCK s) ->
    S (Resume.r_pos (s_rd RAW WS WCK s)) < length msgs ->
    Resume.step D RAW WS WCK dlen blocksize tsize ssize range_data bs_data w_open w_write w_save w_final w_tell fresh
         is_overlay copy_old (emit_w marshal msgs seek_beh) (fun _ => true) stop s m = Running RAW WS WCK s' ->
    in_loop WS (s_ph RAW WS WCK s') = true ->
    Resume.step D RAW WS WCK dlen blocksize tsize ssize range_data bs_data w_open w_write w_save w_final w_tell fresh
         is_overlay copy_old (emit_w marshal msgs seek_beh) (fun _ => true) stop s' m' = r ->
    match r with
    | Running _ _ _ s'' | Stopped _ _ _ s'' => length (s_offers RAW WS WCK s) < length (s_offers RAW WS WCK s'')
    | _ => True
    end.
Proof. exact saves_happen_wire_lemma. Qed.
Print Assumptions saves_happen_wire_seek.

(** Writer.  [ow_open] ... [ow_result] model [overlayEntryWriter] (Resume = seek both files to
    the saved (ReadOffset, OverlayOffset) + NewOverlayWriter, Write, Save = Flush + the two
    offsets, Finalize) on top of C14's writer, and Commit = C14's [patch] (Patch + truncate) of
    the old file with the stage file.  The contract holds with: content so far = everything
    written through all sessions; invariant [ow_inv] = "in the middle of a C14 session opened
    in a state satisfying C14's [pre]"; crash model [ow_covers] = the overlay file keeps its
    first OverlayOffset bytes, ANYTHING may follow; [ow_raw_ok] = any file may sit at the stage
    path.  [W_final] is C14's [sessions_ok] (general form of [overlay_sessions]), [W_save]
    its induction step ([session_ok], [session_lands]: what [offsets_exact_after_flush] and
    [flushed_prefix_applies] state).  Environment: the overlay message codec is a prefix code
    ([real_codec_is_prefix_code] of C14 for the real one) and [0 < bufSize]. *)
Theorem overlay_entry_writer_contract :
  forall (bufSize threshold : N) (enc : Writer.op -> list byte) (dec : list byte -> option (Writer.op * list byte))
         (magic : list byte),
    (0 < bufSize)%N ->
    (forall o rest, dec (enc o ++ rest) = Some (o, rest)) ->
  forall (old : N -> list byte) (tsize ssize : N -> N) (prepare : N -> list byte -> list byte)
         (copy_old old_content : N -> list byte),
    writer_ok (list byte) (list byte) (list byte) ew_state ew_ckpt (fun d => N.of_nat (length d)) tsize ssize
              (ow_open enc dec magic old) (ow_write bufSize threshold enc) (ow_save bufSize threshold enc)
              (ow_final bufSize threshold enc) ow_tell (ow_result dec magic old) false prepare copy_old old_content
              (fun c d => c ++ d) [] ow_abs (ow_inv bufSize threshold enc magic old) ow_raw_ok ow_covers
              (ow_finished dec magic old).
Proof. exact overlay_writer_ok. Qed.
Print Assumptions overlay_entry_writer_contract.

(** [resume_equiv] for in-place application with the writer hypothesis discharged ([ob_*]:
    the theorem's notions instantiated with the overlay bowl's dispatching writer -
    [freshEntryWriter] for new paths, the overlay entry writer for paths of the old build);
    the reader is still abstract. *)
Theorem resume_equiv_overlay_instance :
  forall (bufSize threshold : N) (enc : Writer.op -> list byte) (dec : list byte -> option (Writer.op * list byte))
         (magic : list byte) (blocksize : N) (tsize ssize : N -> N) (nfiles : N) (oldt oldp : N -> list byte)
         (range_data : N -> N -> N -> list byte) (bs_data : N -> Z -> list byte -> list byte -> list byte)
         (is_overlay : N -> bool) (emit : nat -> bool) (src_resume : nat -> nat -> option nat),
    (0 < bufSize)%N ->
    (forall o rest, dec (enc o ++ rest) = Some (o, rest)) ->
    (forall t : N, length (oldt t) = N.to_nat (tsize t)) ->
    (forall off src : nat, src <= off -> src_resume off src = Some off) ->
  forall (msgs : list (msg (list byte))) (d0 : N -> list byte) (Sf : state (list byte) (N + ew_state) (unit + ew_ckpt)),
    ob_run bufSize threshold enc dec magic blocksize tsize ssize nfiles oldt oldp range_data bs_data is_overlay emit
           (fun _ => false) (fun _ => false) (ob_start ssize d0) msgs = Finished _ _ _ Sf ->
    ob_sized bufSize threshold enc dec magic blocksize tsize ssize nfiles oldt oldp range_data bs_data is_overlay emit
             (ob_start ssize d0) msgs ->
    (forall g, ob_raw_ok ssize is_overlay g (d0 g)) ->
  forall (ck : ckpt (unit + ew_ckpt)) (d d' : N -> list byte) (sched stop : nat -> bool),
    ob_offered bufSize threshold enc dec magic blocksize tsize ssize nfiles oldt oldp range_data bs_data is_overlay emit
               src_resume msgs d0 ck d ->
    ob_crash ssize is_overlay ck d d' ->
    match ob_resumed bufSize threshold enc dec magic blocksize tsize ssize nfiles oldt oldp range_data bs_data is_overlay
                     emit src_resume sched stop ck d' msgs with
    | Finished _ _ _ sf => ob_commit dec magic nfiles oldt oldp is_overlay sf = ob_commit dec magic nfiles oldt oldp is_overlay Sf
    | Stopped _ _ _ _ => exists j : nat, stop j = true
    | _ => False
    end.
Proof. exact resume_equiv_overlay_lemma. Qed.
Print Assumptions resume_equiv_overlay_instance.

(** Both at once: in-place application read through the wire reader.  What is left is the
    environment - the overlay message codec is a prefix code, the source keeps the checkpoint
    contract [beh_sound], the old files have their declared sizes, [0 < bufSize] - and the
    patch: the uninterrupted application completes and respects the declared sizes. *)
Theorem resume_equiv_instantiated :
  forall (bufSize threshold : N) (enc : Writer.op -> list byte) (dec : list byte -> option (Writer.op * list byte))
         (magic : list byte) (blocksize : N) (tsize ssize : N -> N) (nfiles : N) (oldt oldp : N -> list byte)
         (range_data : N -> N -> N -> list byte) (bs_data : N -> Z -> list byte -> list byte -> list byte)
         (is_overlay : N -> bool) (marshal : msg (list byte) -> list byte) (beh : behaviour) (cap0 : N),
    (0 < bufSize)%N ->
    (forall o rest, dec (enc o ++ rest) = Some (o, rest)) ->
    (forall t : N, length (oldt t) = N.to_nat (tsize t)) ->
    beh_sound beh ->
  forall msgs : list (msg (list byte)),
    let emit := emit_w marshal msgs beh in
    let src_resume := src_resume_w marshal msgs beh cap0 in
  forall (d0 : N -> list byte) (Sf : state (list byte) (N + ew_state) (unit + ew_ckpt)),
    ob_run bufSize threshold enc dec magic blocksize tsize ssize nfiles oldt oldp range_data bs_data is_overlay emit
           (fun _ => false) (fun _ => false) (ob_start ssize d0) msgs = Finished _ _ _ Sf ->
    ob_sized bufSize threshold enc dec magic blocksize tsize ssize nfiles oldt oldp range_data bs_data is_overlay emit
             (ob_start ssize d0) msgs ->
    (forall g, ob_raw_ok ssize is_overlay g (d0 g)) ->
  forall (ck : ckpt (unit + ew_ckpt)) (d d' : N -> list byte) (sched stop : nat -> bool),
    ob_offered bufSize threshold enc dec magic blocksize tsize ssize nfiles oldt oldp range_data bs_data is_overlay emit
               src_resume msgs d0 ck d ->
    ob_crash ssize is_overlay ck d d' ->
    match ob_resumed bufSize threshold enc dec magic blocksize tsize ssize nfiles oldt oldp range_data bs_data is_overlay
                     emit src_resume sched stop ck d' msgs with
    | Finished _ _ _ sf => ob_commit dec magic nfiles oldt oldp is_overlay sf = ob_commit dec magic nfiles oldt oldp is_overlay Sf
    | Stopped _ _ _ _ => exists j : nat, stop j = true
    | _ => False
    end.
Proof. exact resume_equiv_instantiated_lemma. Qed.
Print Assumptions resume_equiv_instantiated.

(** Where [H_wire] as literally stated asks for more than C13 gives (computed on the instance
    of the example below): a reader index beyond the last message is not a position of the
    stream ([Resume] lands at the end, 6, not at 7); and for a sound source that describes the
    END of the message during whose read it answers, resuming with reader offset = the START of
    that message fails (delta < 0) while any later reader offset works. *)
Theorem h_wire_literal_exceeds_c13 :
  src_resume_w xi_marshal ex_msgs seek_beh 0 7 2 = Some 6 /\
  beh_sound late_beh /\
  src_resume_w xi_marshal ex_msgs late_beh 0 3 3 = None /\
  src_resume_w xi_marshal ex_msgs late_beh 0 3 2 = Some 3.
Proof. exact (conj h_wire_beyond_end (conj late_beh_sound h_wire_src_eq_off)). Qed.
Print Assumptions h_wire_literal_exceeds_c13.

(** Non-vacuity of [resume_equiv_instantiated]: the patch of [resume_nonvacuous] applied in
    place (overlay window 4, threshold 1, C14's real message encoding, seek source): every
    hypothesis holds, Commit yields the new file, the run that always saves offers a checkpoint
    after 3 messages (6 bytes written, ReadOffset 6, OverlayOffset 21), a crash disk keeping
    the 21 covered bytes followed by junk and a stale end marker is within the crash model and
    differs from the disk of checkpoint time, and the resumed run commits to the new file. *)
Example resume_instantiated_nonvacuous :
  exists Sf,
    xi_run (fun _ => false) (fun _ => false) xi_start ex_msgs = Finished _ _ _ Sf /\
    ob_sized 4 1 enc dec magic 4 ex_tsize ex_ssize 1 ex_old ex_old ex_range ex_bs xi_sel xi_emit xi_start ex_msgs /\
    (forall g, ob_raw_ok ex_ssize xi_sel g (ex_d0 g)) /\
    xi_commit Sf = Some [Some ex_new] /\
    ob_offered 4 1 enc dec magic 4 ex_tsize ex_ssize 1 ex_old ex_old ex_range ex_bs xi_sel xi_emit xi_resume
               ex_msgs ex_d0 (fst xi_offer) (snd xi_offer) /\
    ck_msg _ (fst xi_offer) = mkmc 3 2 /\ ck_woff _ (fst xi_offer) = 6%N /\ ck_wdata _ (fst xi_offer) = inr (6%N, 21%N) /\
    ob_crash ex_ssize xi_sel (fst xi_offer) (snd xi_offer) xi_crash /\
    snd xi_offer 0%N <> xi_crash 0%N /\
    exists sf, xi_resumed (fun _ => false) (fun _ => false) (fst xi_offer) xi_crash ex_msgs = Finished _ _ _ sf /\
               xi_commit sf = Some [Some ex_new].
Proof. exact resume_instantiated_example_lemma. Qed.
Print Assumptions resume_instantiated_nonvacuous.

(** ** Added (Compose/ModelsAgree.v): the C03 model and the C01 / C12 models of the same Go code agree

    pwr/patcher's processRsync / processBsdiff (and bsdiff Apply inside it) are modelled by
    Patch/Patcher.v (C01, concrete: frames re-interpreted, fresh bowl tree), by Patch/Resume.v
    (C03, this property: typed messages, parametric payload functions and entry writer) and,
    for Apply, by Bsdiff/Patch.v (C12).  Each has its own correspondence; the theorems below tie
    the C03 machine - at the fresh bowl's entry writer (Patch/PlainWriter.v), with
    [range_data] / [bs_data] / sizes read off the C01 parameters ([range_data_of], [bs_data_of],
    [tsize_of], [ssize_of], [old_of] of Compose/ModelsAgreeResume.v), no saving - to the other
    two: wherever the C01 model returns Ok, the C03 machine runs over the same frames (seen as
    the typed message each is READ as: [abs_so], [abs_ct], [abs_bh]) without failing or stopping
    and leaves the same bytes in the file.  Stated here (C03's file) for the pairs C01/C03 and
    C12/C03; the pairs with C10 are in Properties/C10.v.  The converse direction fails by
    design - C03 "leaves index bounds to C10" - see [c03_has_no_bounds_checks]. *)
From Wharf Require Bowl.Fresh Patch.Reinterp Patch.Stream Patch.Patcher Patch.DiffApplyProofs Bsdiff.Scan Bsdiff.Patch
     Compose.OptimizeApply Compose.ModelsAgreeResume Compose.ModelsAgreeResumeProofs Compose.ModelsAgreeBsdiffProofs.

Section ModelsAgreeC03.
  Import Fresh Reinterp Stream Patcher ModelsAgreeResume.
  Local Open Scope Z_scope.

  (** the relay loop of processRsync.  [wsim w S wN]: the C01 writer [w] and the C03 state see the
      same bytes in the output file, at the same offset [wN], inside the file.  Hypotheses:
      [0 < bs]; the pool serves files of the declared sizes ([aligned]) *)
  Theorem relay_models_agree_c01_c03 :
    forall (bs : Z) (oldC newC : container) (olds : list (list byte)) (nfiles : N) (is_overlay : N -> bool)
           (emit stop : nat -> bool),
      0 < bs -> aligned oldC olds ->
    forall (ms : list pmsg) (w : wst) (rest : list pmsg) (s' : pst) (S : cstate) (wN : N),
      relay bs oldC olds ms w = Ok (rest, s') ->
      s_ph _ _ _ S = PRsLoop _ wN -> wsim w S wN ->
      exists (pre : list pmsg) (S' : cstate),
        ms = pre ++ rest /\
        (forall tail, c03_run bs oldC newC olds nfiles is_overlay emit stop S (map (fun m => abs_so (as_so m)) pre ++ tail) =
                      c03_run bs oldC newC olds nfiles is_overlay emit stop S' tail) /\
        s_ph _ _ _ S' = PFile _ /\ s_file _ _ _ S' = (s_file _ _ _ S + 1)%N /\
        tlookup (p_tree s') (w_path w) = Some (File (s_disk _ _ _ S' (s_file _ _ _ S))) /\
        c03_frame S S' /\
        (forall q, q <> w_path w -> tlookup (p_tree s') q = tlookup (p_tree (w_st w)) q).
  Proof. exact ModelsAgreeResumeProofs.relay_models_agree_c03. Qed.

  (** processRsync from its first op, both branches (full-file op => Transpose + skip; otherwise
      open, first op, relay).  [so_span_repr]: the span of the first op, if it is a block range,
      is not negative (C03 messages carry [N]); it cannot be dropped ([diff_first_span]) *)
  Theorem process_rsync_models_agree_c01_c03 :
    forall (bs : Z) (oldC newC : container) (olds : list (list byte)) (nfiles : N) (is_overlay : N -> bool)
           (emit stop : nat -> bool),
      0 < bs -> aligned oldC olds ->
    forall (idx : Z) (p : path) (size : Z) (m : pmsg) (ms rest : list pmsg) (s s' : pst) (S : cstate),
      znth (c_files newC) idx = Some (p, size) -> 0 <= size ->
      so_span_repr (as_so m) ->
      process_rsync bs oldC newC olds idx (m :: ms) s = Ok (rest, s') ->
      s_ph _ _ _ S = PRsFirst _ -> s_file _ _ _ S = Z.to_N idx ->
      tlookup (p_tree s) p = Some (File (s_disk _ _ _ S (s_file _ _ _ S))) ->
      exists (pre : list pmsg) (S' : cstate),
        m :: ms = pre ++ rest /\
        (forall tail, c03_run bs oldC newC olds nfiles is_overlay emit stop S (map (fun m => abs_so (as_so m)) pre ++ tail) =
                      c03_run bs oldC newC olds nfiles is_overlay emit stop S' tail) /\
        s_ph _ _ _ S' = PFile _ /\ s_file _ _ _ S' = (s_file _ _ _ S + 1)%N /\
        tlookup (p_tree s') p = Some (File (s_disk _ _ _ S' (s_file _ _ _ S))) /\
        c03_frame S S'.
  Proof. exact ModelsAgreeResumeProofs.process_rsync_models_agree_c03. Qed.

  (** the control loop of processBsdiff (bsdiff Apply per control): same bytes, same old-file
      cursor at every step; no hypothesis *)
  Theorem ctrl_loop_models_agree_c01_c03 :
    forall (bs : Z) (oldC newC : container) (olds : list (list byte)) (nfiles : N) (is_overlay : N -> bool)
           (emit stop : nat -> bool)
           (ms : list pmsg) (off : Z) (t : N) (w : wst) (rest : list pmsg) (w' : wst) (S : cstate) (wN : N),
      ctrl_loop (old_of olds t) off ms w = Ok (rest, w') ->
      s_ph _ _ _ S = PBsLoop _ wN off t -> wsim w S wN ->
      exists (pre : list pmsg) (S' : cstate) (wN' : N),
        ms = pre ++ rest /\
        (forall tail, c03_run bs oldC newC olds nfiles is_overlay emit stop S (map (fun m => abs_ct (as_ct m)) pre ++ tail) =
                      c03_run bs oldC newC olds nfiles is_overlay emit stop S' tail) /\
        s_ph _ _ _ S' = PBsEnd _ wN' /\ s_file _ _ _ S' = s_file _ _ _ S /\
        wsim w' S' wN' /\ w_path w' = w_path w /\
        c03_frame S S' /\
        (forall q, q <> w_path w -> tlookup (p_tree (w_st w')) q = tlookup (p_tree (w_st w)) q).
  Proof. exact ModelsAgreeResumeProofs.ctrl_loop_models_agree_c03. Qed.

  (** processBsdiff from the BsdiffHeader to the final size check; no hypothesis *)
  Theorem process_bsdiff_models_agree_c01_c03 :
    forall (bs : Z) (oldC newC : container) (olds : list (list byte)) (nfiles : N) (is_overlay : N -> bool)
           (emit stop : nat -> bool)
           (idx : Z) (p : path) (size : Z) (m : pmsg) (ms rest : list pmsg) (s s' : pst) (S : cstate),
      znth (c_files newC) idx = Some (p, size) ->
      process_bsdiff oldC newC olds idx (m :: ms) s = Ok (rest, s') ->
      s_ph _ _ _ S = PBsHeader _ -> s_file _ _ _ S = Z.to_N idx ->
      tlookup (p_tree s) p = Some (File (s_disk _ _ _ S (s_file _ _ _ S))) ->
      exists (ctrls : list pmsg) (m2 : pmsg) (S' : cstate),
        ms = ctrls ++ m2 :: rest /\
        (forall tail, c03_run bs oldC newC olds nfiles is_overlay emit stop S (abs_bsdiff_series m ctrls m2 ++ tail) =
                      c03_run bs oldC newC olds nfiles is_overlay emit stop S' tail) /\
        s_ph _ _ _ S' = PFile _ /\ s_file _ _ _ S' = (s_file _ _ _ S + 1)%N /\
        tlookup (p_tree s') p = Some (File (s_disk _ _ _ S' (s_file _ _ _ S))) /\
        c03_frame S S'.
  Proof. exact ModelsAgreeResumeProofs.process_bsdiff_models_agree_c03. Qed.

  (** C12's Apply and C03's [bs_data]: one control ... *)
  Theorem bsdiff_apply_models_agree_c12_c03 :
    forall (olds : list (list byte)) (t : N) (off : Z) (c : Scan.ctrl) (o : list byte) (off' : Z),
      Bsdiff.Patch.apply_ctrl (old_of olds t) off c = Some (o, off') ->
      o = bs_data_of olds t off (Scan.c_add c) (Scan.c_copy c) /\
      off' = off + Z.of_N (N.of_nat (length (Scan.c_add c))) + Scan.c_seek c.
  Proof. exact ModelsAgreeBsdiffProofs.apply_ctrl_is_bs_data. Qed.

  (** ... and a whole well-formed series (int64 seeks, only the last control marked eof, C12's
      [apply_series] succeeds with output [out]): the C03 machine consumes exactly the
      controls, reaches the sentinel phase, and the output file - pre-sized to [L] bytes, with
      [written] in it so far ([wgood]) - now holds [written ++ out] *)
  Theorem bsdiff_series_models_agree_c12_c03 :
    forall (bs : Z) (oldC newC : container) (olds : list (list byte)) (nfiles : N) (is_overlay : N -> bool)
           (emit stop : nat -> bool) (t : N) (b : OptimizeApply.bseries) (out : list byte) (offf : Z)
           (p : path) (L : nat) (w : wst) (written : list byte) (S : cstate) (wN : N),
      forallb OptimizeApply.seek_okb b = true -> OptimizeApply.eof_lastb b = true ->
      Bsdiff.Patch.apply_series (old_of olds t) 0 b = Some (out, offf) ->
      DiffApplyProofs.wgood p L w written -> (length written + length out <= L)%nat ->
      s_ph _ _ _ S = PBsLoop _ wN 0 t -> wsim w S wN ->
      exists (S' : cstate) (wN' : N),
        (forall tail, c03_run bs oldC newC olds nfiles is_overlay emit stop S (map ModelsAgreeBsdiffProofs.c03_ctrl b ++ tail) =
                      c03_run bs oldC newC olds nfiles is_overlay emit stop S' tail) /\
        s_ph _ _ _ S' = PBsEnd _ wN' /\ s_file _ _ _ S' = s_file _ _ _ S /\
        N.to_nat wN' = (length written + length out)%nat /\
        s_disk _ _ _ S' (s_file _ _ _ S) = written ++ out ++ zeros (L - (length written + length out)) /\
        c03_frame S S'.
  Proof. exact ModelsAgreeBsdiffProofs.bsdiff_series_c12_c03_lemma. Qed.

  (** where the two models differ: inputs on which the C01 model (and Go) returns an error and
      the C03 machine runs on to [Finished] - a block range naming old file 7 of a one-file
      container (no validateOp in C03); an add part of five bytes against an old file of three
      (no bounds check in C03's bsdiff step); a BsdiffHeader naming old file 9.  Tiny executed
      instances (block size 4) *)
  Theorem c03_has_no_bounds_checks :
    (relay 4 ModelsAgreeResumeProofs.ex_oldC ModelsAgreeResumeProofs.ex_olds
           [ModelsAgreeResumeProofs.ex_bad_range; hey_msg] ModelsAgreeResumeProofs.ex_w = Err /\
     ModelsAgreeResumeProofs.finished_with
       (c03_run 4 ModelsAgreeResumeProofs.ex_oldC ModelsAgreeResumeProofs.ex_newC0 ModelsAgreeResumeProofs.ex_olds 1
                ModelsAgreeResumeProofs.nof ModelsAgreeResumeProofs.nob ModelsAgreeResumeProofs.nob
                (ModelsAgreeResumeProofs.ex_state (PRsLoop _ 0%N))
                (map (fun m => abs_so (as_so m)) [ModelsAgreeResumeProofs.ex_bad_range; hey_msg])) 0 [] = true) /\
    (process_bsdiff ModelsAgreeResumeProofs.ex_oldC ModelsAgreeResumeProofs.ex_newC3 ModelsAgreeResumeProofs.ex_olds 0
                    [MBH (mkBH 0); ModelsAgreeResumeProofs.ex_long_add; ModelsAgreeResumeProofs.ex_eof; hey_msg]
                    ModelsAgreeResumeProofs.ex_pst = Err /\
     ModelsAgreeResumeProofs.finished_with
       (c03_run 4 ModelsAgreeResumeProofs.ex_oldC ModelsAgreeResumeProofs.ex_newC3 ModelsAgreeResumeProofs.ex_olds 1
                ModelsAgreeResumeProofs.nof ModelsAgreeResumeProofs.nob ModelsAgreeResumeProofs.nob
                (ModelsAgreeResumeProofs.ex_state (PBsHeader _))
                (abs_bsdiff_series (MBH (mkBH 0)) [ModelsAgreeResumeProofs.ex_long_add; ModelsAgreeResumeProofs.ex_eof] hey_msg))
       0 [2; 3; 4]%N = true) /\
    (process_bsdiff ModelsAgreeResumeProofs.ex_oldC ModelsAgreeResumeProofs.ex_newC0 ModelsAgreeResumeProofs.ex_olds 0
                    [MBH (mkBH 9); ModelsAgreeResumeProofs.ex_eof; hey_msg] ModelsAgreeResumeProofs.ex_pst = Err /\
     ModelsAgreeResumeProofs.finished_with
       (c03_run 4 ModelsAgreeResumeProofs.ex_oldC ModelsAgreeResumeProofs.ex_newC0 ModelsAgreeResumeProofs.ex_olds 1
                ModelsAgreeResumeProofs.nof ModelsAgreeResumeProofs.nob ModelsAgreeResumeProofs.nob
                (ModelsAgreeResumeProofs.ex_state (PBsHeader _))
                (abs_bsdiff_series (MBH (mkBH 9)) [ModelsAgreeResumeProofs.ex_eof] hey_msg)) 0 [] = true).
  Proof.
    exact (conj ModelsAgreeResumeProofs.diff_validate_op
                (conj ModelsAgreeResumeProofs.diff_bsdiff_bounds ModelsAgreeResumeProofs.diff_bsdiff_target)).
  Qed.
End ModelsAgreeC03.
Print Assumptions relay_models_agree_c01_c03.
Print Assumptions process_rsync_models_agree_c01_c03.
Print Assumptions ctrl_loop_models_agree_c01_c03.
Print Assumptions process_bsdiff_models_agree_c01_c03.
Print Assumptions bsdiff_apply_models_agree_c12_c03.
Print Assumptions bsdiff_series_models_agree_c12_c03.
Print Assumptions c03_has_no_bounds_checks.
