(** C11 — rsync operations always reconstruct the source and stay within the old files.
    Only statements, [exact], and [Print Assumptions].  Model: Wsync/{Weak,Diff,Library,Sign,Apply}.v
    (a line-by-line transcription of wsync/algo.go, hashes.go, block_library.go after the two
    repairs recorded in known_findings.json); vocabulary: Wsync/Spec.v; proofs: Wsync/*Proofs.v,
    Wsync/Theorems.v.

    [diff_ops shash heqb bs maxData olds src pref] = CreateSignature of every old file,
    NewBlockLibrary, ComputeDiff of [src] with preferred file [pref]; [None] would be "out of
    fuel".  All theorems hold for every block size [bs > 0] and every data-op limit
    [maxData > 0] (Go: 64 KiB and 4 MiB), every list of old files, every source, every preferred
    index, under the hypothesis that the strong hash (MD5) separates the signed blocks from the
    windows of the source it is compared with. *)
From Wharf Require Import Base.Prelude Wsync.Weak Wsync.Diff Wsync.Apply Wsync.Library Wsync.Sign Wsync.Spec Wsync.Theorems.
Local Open Scope N_scope.

(** the differ terminates and replaying its operations on the old files yields the source *)
Theorem diff_reconstructs :
  forall (H : Type) (shash : list N -> H) (heqb : H -> H -> bool) (bs maxData : N)
         (olds : list (list N)) (src : list N) (pref : option N),
    0 < bs -> 0 < maxData -> (forall x y, heqb x y = true -> x = y) -> strong_injective shash bs olds src ->
    exists ops, diff_ops shash heqb bs maxData olds src pref = Some ops /\
                apply_ops bs olds (map (conc src) ops) = Some src.
Proof. exact diff_reconstructs_lemma. Qed.
Print Assumptions diff_reconstructs.

(** every block range names an existing old file, has span >= 1 and index+span <= ceil(len/bs) *)
Theorem ranges_in_bounds :
  forall (H : Type) (shash : list N -> H) (heqb : H -> H -> bool) (bs maxData : N)
         (olds : list (list N)) (src : list N) (pref : option N),
    0 < bs -> 0 < maxData -> (forall x y, heqb x y = true -> x = y) -> strong_injective shash bs olds src ->
    forall ops, diff_ops shash heqb bs maxData olds src pref = Some ops -> Forall (range_ok bs olds) ops.
Proof. exact ranges_in_bounds_lemma. Qed.
Print Assumptions ranges_in_bounds.

(** consecutive ranges of the same file that continue each other do not occur: they were merged *)
Theorem ranges_merged :
  forall (H : Type) (shash : list N -> H) (heqb : H -> H -> bool) (bs maxData : N)
         (olds : list (list N)) (src : list N) (pref : option N),
    0 < bs -> 0 < maxData -> (forall x y, heqb x y = true -> x = y) -> strong_injective shash bs olds src ->
    forall ops, diff_ops shash heqb bs maxData olds src pref = Some ops -> no_adjacent_mergeable ops.
Proof. exact ranges_merged_lemma. Qed.
Print Assumptions ranges_merged.

(** an empty data operation can only be the first operation *)
Theorem empty_data_only_leading :
  forall (H : Type) (shash : list N -> H) (heqb : H -> H -> bool) (bs maxData : N)
         (olds : list (list N)) (src : list N) (pref : option N),
    0 < bs -> 0 < maxData -> (forall x y, heqb x y = true -> x = y) -> strong_injective shash bs olds src ->
    forall ops, diff_ops shash heqb bs maxData olds src pref = Some ops -> empty_only_leading ops.
Proof. exact empty_data_only_leading_lemma. Qed.
Print Assumptions empty_data_only_leading.

(** no data operation exceeds the limit (true of the repaired code: before the repair the
    trailing data operation could reach [maxData + 2*bs - 3] bytes; the Go input that showed it
    is the first corpus case of every run) *)
Theorem data_op_le_max :
  forall (H : Type) (shash : list N -> H) (heqb : H -> H -> bool) (bs maxData : N)
         (olds : list (list N)) (src : list N) (pref : option N),
    0 < bs -> 0 < maxData -> (forall x y, heqb x y = true -> x = y) -> strong_injective shash bs olds src ->
    forall ops, diff_ops shash heqb bs maxData olds src pref = Some ops -> Forall (fun o => data_len o <= maxData) ops.
Proof. exact data_op_le_max_lemma. Qed.
Print Assumptions data_op_le_max.

(** every data operation is a slice of the source *)
Theorem data_in_bounds :
  forall (H : Type) (shash : list N -> H) (heqb : H -> H -> bool) (bs maxData : N)
         (olds : list (list N)) (src : list N) (pref : option N),
    0 < bs -> 0 < maxData -> (forall x y, heqb x y = true -> x = y) -> strong_injective shash bs olds src ->
    forall ops, diff_ops shash heqb bs maxData olds src pref = Some ops ->
      Forall (fun o => match o with OpData s l => s + l <= len src | OpRange _ _ _ => True end) ops.
Proof. exact data_in_bounds_lemma. Qed.
Print Assumptions data_in_bounds.

(** non-vacuity: the executable instantiation (strong hash := the block itself) satisfies the
    hypotheses for every input ... *)
Example hypotheses_inhabited :
  forall bs olds src, strong_injective (fun b : list N => b) bs olds src /\
                      (forall x y, nlist_eqb x y = true -> x = y).
Proof. intros. split; [apply id_strong_injective|exact nlist_eqb_sound]. Qed.

(** ... and a concrete run at tiny parameters with both kinds of operations, a merged range,
    a split trailing data run and the buffer wrap (bs = 2, maxData = 3) *)
Example diff_example :
  diff_ops (fun b : list N => b) nlist_eqb 2 3 [[1;2;3;4;5]] [1;2;3;4;9;9;9;9;9;9;9;5] None
  = Some [OpRange 0 0 2; OpData 4 1; OpData 5 3; OpData 8 3; OpData 11 1].
Proof. vm_compute. reflexivity. Qed.
