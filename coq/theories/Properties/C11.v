(** C11 placeholder *)
From Wharf Require Import Base.Prelude Exec.C11.
Example c11_placeholder : small_wrap = small_wrap.
Proof. reflexivity. Qed.
Print Assumptions c11_placeholder.
