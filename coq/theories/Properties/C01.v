(** C01 - diff then apply reproduces the new build exactly.
    Only statements, [exact], and [Print Assumptions]; models in Patch/Stream.v (the patch as a
    message list), Patch/Patcher.v (the patcher), Bowl/Fresh.v (Prepare + fresh bowl),
    Patch/Reinterp.v (protobuf decoding); proofs in Bowl/FreshProofs.v, Patch/ApplyProofs.v,
    Patch/PatcherProofs.v, Patch/DiffApplyProofs.v.

    The rsync differ is abstract here: [differ pref data] with the hypothesis [diff_ok]
      "for every new file it emits at least one op, its ops replay to the file against the
       old files, every range is in bounds"
    which is what C11 proves of wsync.ComputeDiff.  Wire framing and codecs are C13's: the
    theorem is stated on the message list and, below, for any codec that round-trips. *)
From Wharf Require Import Base.Prelude Bowl.Fresh Bowl.FreshProofs Patch.Reinterp Patch.Stream Patch.Patcher
     Patch.ApplyProofs Patch.PatcherProofs Patch.DiffApplyProofs.
Local Open Scope Z_scope.

(** For every block size, every well-formed new build, every old build, every differ output
    satisfying [diff_ok]: applying [write_patch old new] to an empty directory succeeds,
    touches every file, and the output tree IS the new build - the same set of paths, the
    same bytes, the same link destinations, nothing else ([tlookup] agrees on every path). *)
Theorem diff_apply_fresh :
  forall (bs : Z) (differ : Z -> list byte -> list op) (old new : build) (algo quality : Z),
    0 < bs -> wf_build new -> fits63 old -> fits63 new -> diff_ok bs (contents_of old) differ ->
    exists t touched trace,
      apply_patch_fresh bs (contents_of old) None (write_patch differ algo quality old new) = Ok (t, touched, trace) /\
      touched = Z.of_nat (length (files_of new)) /\
      forall p, tlookup t p = tlookup new p.
Proof. exact diff_apply_fresh_lemma. Qed.
Print Assumptions diff_apply_fresh.

(** ... under every compression setting: for any encoder / decoder pair of the frame list
    that round-trips (C13), whatever (algorithm, quality) the header carries *)
Theorem diff_apply_fresh_any_codec :
  forall (B : Type) (encode : list frame -> B) (decode : B -> option (list frame)),
    (forall fs, decode (encode fs) = Some fs) ->
  forall (bs : Z) (differ : Z -> list byte -> list op) (old new : build) (algo quality : Z),
    0 < bs -> wf_build new -> fits63 old -> fits63 new -> diff_ok bs (contents_of old) differ ->
    exists fs t touched trace,
      decode (encode (write_patch differ algo quality old new)) = Some fs /\
      apply_patch_fresh bs (contents_of old) None fs = Ok (t, touched, trace) /\
      forall p, tlookup t p = tlookup new p.
Proof. exact diff_apply_fresh_any_codec_lemma. Qed.
Print Assumptions diff_apply_fresh_any_codec.

(** ApplySingleFull's arithmetic (opSize from the old file's size, the lastSize rule) copies,
    for an in-bounds range, exactly the bytes the range denotes *)
Theorem apply_single_replays :
  forall (bs : Z) (oldC : container) (olds : list (list byte)) (w : wst) (f i s : Z) (d : list byte) (pf : path),
    0 < bs -> znth (c_files oldC) f = Some (pf, Z.of_nat (length d)) -> znth olds f = Some d ->
    0 <= i -> 1 <= s -> i + s <= num_blocks bs (Z.of_nat (length d)) ->
    apply_range bs oldC olds w f i s =
    w_write (mkW (ev (ev (w_st w) (EvSize f)) (EvRead f)) (w_path w) (w_off w)) (denote bs olds (OpRange f i s)).
Proof. exact apply_single_replays_lemma. Qed.
Print Assumptions apply_single_replays.

Theorem op_size_exact :
  forall bs L i s, 0 < bs -> 0 <= L -> 0 <= i -> 1 <= s -> i + s <= num_blocks bs L ->
    op_size bs L i s = Z.min (bs * s) (L - bs * i).
Proof. exact op_size_in_bounds. Qed.
Print Assumptions op_size_exact.

(** the full-file-op rule is sound: when the ops of a new file replay to it and the first op
    is a range from block 0 of an old file of the same size covering all its blocks, that old
    file is the new file (so Transpose = copy gives the right content) and the trailing ops
    denote nothing (so ignoring them loses nothing) *)
Theorem full_file_op_is_copy :
  forall (bs : Z) (olds : list (list byte)) (f s : Z) (rest : list op) (d data : list byte),
    0 < bs -> znth olds f = Some d -> length d = length data ->
    s = num_blocks bs (Z.of_nat (length data)) ->
    replay bs olds (OpRange f 0 s :: rest) = data ->
    d = data /\ replay bs olds rest = [].
Proof. exact full_file_op. Qed.
Print Assumptions full_file_op_is_copy.

(** Prepare of a well-formed container into an empty directory lays out its directories,
    zero-filled files of the declared sizes and symlinks, and nothing else *)
Theorem prepare_lays_out_container :
  forall c, wf_container c -> exists t0, prepare c [] = Ok t0 /\ forall q, tlookup t0 q = tlookup (ctree c) q.
Proof. exact prepare_spec. Qed.
Print Assumptions prepare_lays_out_container.

(** the executable well-formedness test that the correspondence evaluates on every generated
    new build implies the hypothesis [wf_build] of [diff_apply_fresh] *)
Theorem wf_build_test_sound : forall b, wf_buildb b = true -> wf_build b.
Proof. exact wf_buildb_sound. Qed.
Print Assumptions wf_build_test_sound.

(** non-vacuity: the hypotheses are satisfiable (a differ that sends every file as one DATA op
    is [diff_ok]), and a concrete run with a renamed file (full-file op => Transpose), a file
    made of an old block plus fresh bytes, an empty file, a directory and a symlink *)
Example diff_ok_inhabited : forall bs olds, diff_ok bs olds (fun _ data => [OpData data]).
Proof. exact diff_ok_data_only. Qed.

Example diff_apply_fresh_example :
  let old : build := [([1], File [1;2;3;4;5;6]); ([2], File [9])]%N in
  let new : build := [([5], Dir); ([5;1], File [1;2;3;4;5;6]); ([3], File [1;2;3;4;7;7]); ([4], File []); ([6], Link [65])]%N in
  let differ := fun (pref : Z) (data : list byte) =>
                  if nlist_eqb data [1;2;3;4;5;6]%N then [OpRange 0 0 2]
                  else if nlist_eqb data [1;2;3;4;7;7]%N then [OpRange 0 0 1; OpData [7;7]%N]
                  else [OpData data] in
  wf_buildb new = true /\
  match apply_patch_fresh 4 (contents_of old) None (write_patch differ 2 9 old new) with
  | Ok (t, touched, trace) =>
    touched = 3 /\ trace = [EvTranspose 0 0; EvRead 0; EvWriter 1; EvSize 0; EvRead 0; EvWriter 2] /\
    forallb (fun e => match tlookup t (fst e), snd e with
                      | Some (File a), File b => nlist_eqb a b
                      | Some Dir, Dir => true
                      | Some (Link a), Link b => nlist_eqb a b
                      | _, _ => false end) new = true
  | _ => False
  end.
Proof. vm_compute. repeat split; reflexivity. Qed.
