(** C01 - diff then apply reproduces the new build exactly.
    Only statements, [exact], and [Print Assumptions]; models in Patch/Stream.v (the patch as a
    message list), Patch/Patcher.v (the patcher), Bowl/Fresh.v (Prepare + fresh bowl),
    Patch/Reinterp.v (protobuf decoding); proofs in Bowl/FreshProofs.v, Patch/ApplyProofs.v,
    Patch/PatcherProofs.v, Patch/DiffApplyProofs.v.

    The rsync differ is abstract here: [differ pref data] with the hypothesis [diff_ok]
      "for every new file it emits at least one op, its ops replay to the file against the
       old files, every range is in bounds"
    which is what C11 proves of wsync.ComputeDiff.  Wire framing and codecs are C13's: the
    theorem is stated on the message list and, below, for any codec that round-trips. *)
From Wharf Require Import Base.Prelude Bowl.Fresh Bowl.FreshProofs Patch.Reinterp Patch.Stream Patch.Patcher
     Patch.ApplyProofs Patch.PatcherProofs Patch.DiffApplyProofs.
Local Open Scope Z_scope.

(** For every block size, every well-formed new build, every old build, every differ output
    satisfying [diff_ok]: applying [write_patch old new] to an empty directory succeeds,
    touches every file, and the output tree IS the new build - the same set of paths, the
    same bytes, the same link destinations, nothing else ([tlookup] agrees on every path). *)
Theorem diff_apply_fresh :
  forall (bs : Z) (differ : Z -> list byte -> list op) (old new : build) (algo quality : Z),
    0 < bs -> wf_build new -> fits63 old -> fits63 new -> diff_ok bs (contents_of old) differ ->
    exists t touched trace,
      apply_patch_fresh bs (contents_of old) None (write_patch differ algo quality old new) = Ok (t, touched, trace) /\
      touched = Z.of_nat (length (files_of new)) /\
      forall p, tlookup t p = tlookup new p.
Proof. exact diff_apply_fresh_lemma. Qed.
Print Assumptions diff_apply_fresh.

(** ... under every compression setting: for any encoder / decoder pair of the frame list
    that round-trips (C13), whatever (algorithm, quality) the header carries *)
Theorem diff_apply_fresh_any_codec :
  forall (B : Type) (encode : list frame -> B) (decode : B -> option (list frame)),
    (forall fs, decode (encode fs) = Some fs) ->
  forall (bs : Z) (differ : Z -> list byte -> list op) (old new : build) (algo quality : Z),
    0 < bs -> wf_build new -> fits63 old -> fits63 new -> diff_ok bs (contents_of old) differ ->
    exists fs t touched trace,
      decode (encode (write_patch differ algo quality old new)) = Some fs /\
      apply_patch_fresh bs (contents_of old) None fs = Ok (t, touched, trace) /\
      forall p, tlookup t p = tlookup new p.
Proof. exact diff_apply_fresh_any_codec_lemma. Qed.
Print Assumptions diff_apply_fresh_any_codec.

(** ApplySingleFull's arithmetic (opSize from the old file's size, the lastSize rule) copies,
    for an in-bounds range, exactly the bytes the range denotes *)
Theorem apply_single_replays :
  forall (bs : Z) (oldC : container) (olds : list (list byte)) (w : wst) (f i s : Z) (d : list byte) (pf : path),
    0 < bs -> znth (c_files oldC) f = Some (pf, Z.of_nat (length d)) -> znth olds f = Some d ->
    0 <= i -> 1 <= s -> i + s <= num_blocks bs (Z.of_nat (length d)) ->
    apply_range bs oldC olds w f i s =
    w_write (mkW (ev (ev (w_st w) (EvSize f)) (EvRead f)) (w_path w) (w_off w)) (denote bs olds (OpRange f i s)).
Proof. exact apply_single_replays_lemma. Qed.
Print Assumptions apply_single_replays.

Theorem op_size_exact :
  forall bs L i s, 0 < bs -> 0 <= L -> 0 <= i -> 1 <= s -> i + s <= num_blocks bs L ->
    op_size bs L i s = Z.min (bs * s) (L - bs * i).
Proof. exact op_size_in_bounds. Qed.
Print Assumptions op_size_exact.

(** the full-file-op rule is sound: when the ops of a new file replay to it and the first op
    is a range from block 0 of an old file of the same size covering all its blocks, that old
    file is the new file (so Transpose = copy gives the right content) and the trailing ops
    denote nothing (so ignoring them loses nothing) *)
Theorem full_file_op_is_copy :
  forall (bs : Z) (olds : list (list byte)) (f s : Z) (rest : list op) (d data : list byte),
    0 < bs -> znth olds f = Some d -> length d = length data ->
    s = num_blocks bs (Z.of_nat (length data)) ->
    replay bs olds (OpRange f 0 s :: rest) = data ->
    d = data /\ replay bs olds rest = [].
Proof. exact full_file_op. Qed.
Print Assumptions full_file_op_is_copy.

(** Prepare of a well-formed container into an empty directory lays out its directories,
    zero-filled files of the declared sizes and symlinks, and nothing else *)
Theorem prepare_lays_out_container :
  forall c, wf_container c -> exists t0, prepare c [] = Ok t0 /\ forall q, tlookup t0 q = tlookup (ctree c) q.
Proof. exact prepare_spec. Qed.
Print Assumptions prepare_lays_out_container.

(** the executable well-formedness test that the correspondence evaluates on every generated
    new build implies the hypothesis [wf_build] of [diff_apply_fresh] *)
Theorem wf_build_test_sound : forall b, wf_buildb b = true -> wf_build b.
Proof. exact wf_buildb_sound. Qed.
Print Assumptions wf_build_test_sound.

(** non-vacuity: the hypotheses are satisfiable (a differ that sends every file as one DATA op
    is [diff_ok]), and a concrete run with a renamed file (full-file op => Transpose), a file
    made of an old block plus fresh bytes, an empty file, a directory and a symlink *)
Example diff_ok_inhabited : forall bs olds, diff_ok bs olds (fun _ data => [OpData data]).
Proof. exact diff_ok_data_only. Qed.

Example diff_apply_fresh_example :
  let old : build := [([1], File [1;2;3;4;5;6]); ([2], File [9])]%N in
  let new : build := [([5], Dir); ([5;1], File [1;2;3;4;5;6]); ([3], File [1;2;3;4;7;7]); ([4], File []); ([6], Link [65])]%N in
  let differ := fun (pref : Z) (data : list byte) =>
                  if nlist_eqb data [1;2;3;4;5;6]%N then [OpRange 0 0 2]
                  else if nlist_eqb data [1;2;3;4;7;7]%N then [OpRange 0 0 1; OpData [7;7]%N]
                  else [OpData data] in
  wf_buildb new = true /\
  match apply_patch_fresh 4 (contents_of old) None (write_patch differ 2 9 old new) with
  | Ok (t, touched, trace) =>
    touched = 3 /\ trace = [EvTranspose 0 0; EvRead 0; EvWriter 1; EvSize 0; EvRead 0; EvWriter 2] /\
    forallb (fun e => match tlookup t (fst e), snd e with
                      | Some (File a), File b => nlist_eqb a b
                      | Some Dir, Dir => true
                      | Some (Link a), Link b => nlist_eqb a b
                      | _, _ => false end) new = true
  | _ => False
  end.
Proof. vm_compute. repeat split; reflexivity. Qed.

(** ------------------------------------------------------------------------------------------
    C11 composed with C01 at Coq level (Compose/DiffApply.v, Compose/RealDifferProofs.v).

    [real_differ shash heqb bs maxData olds pref data] is C11's model of the real differ
    (CreateSignature of every old file, NewBlockLibrary, ComputeDiff of [data] with preferred
    file index [pref]; Wsync/Spec.v [diff_ops]) seen through pwr/diff.go's makeOpsWriter
    ([tr_op]: ranges keep their three numbers, a data span of the source becomes its bytes).
    It has the type of C01's abstract [differ], so [write_patch (real_differ ...)] is WritePatch
    with the real differ, preferred index ([preferred_index], the path lookup of diff.go)
    included.  C11's block size, indices and spans are [N], C01's are [Z]; bytes are [N] in both. *)
From Wharf Require Import Compose.DiffApply Compose.RealDifferProofs.
From Wharf Require Wsync.Diff Wsync.Apply Wsync.Spec Wsync.ApplyProofs Wsync.Theorems.

(** wsync.ApplySingleFull on a block range was modelled twice (C11: [Wsync.Apply.apply_op],
    C01: the bytes [Patcher.apply_range] writes).  The two agree on EVERY range, in bounds or
    not (same opSize / lastSize arithmetic, same seek, same short read at EOF) ... *)
Theorem apply_single_models_agree :
  forall (bs : Z) (olds : list (list byte)) (f i sp : N),
    0 < bs ->
    Wsync.Apply.apply_op (Z.to_N bs) olds (Wsync.Apply.CRange f i sp) =
    option_map (fun d => slice d (bs * Z.of_N i) (op_size bs (Z.of_nat (length d)) (Z.of_N i) (Z.of_N sp)))
               (znth olds (Z.of_N f)).
Proof. exact apply_op_agrees. Qed.
Print Assumptions apply_single_models_agree.

Theorem apply_range_models_agree :
  forall (bs : Z) (oldC : container) (olds : list (list byte)) (w : wst) (f i sp : N) (d : list byte) (pf : path),
    0 < bs -> znth (c_files oldC) (Z.of_N f) = Some (pf, Z.of_nat (length d)) -> znth olds (Z.of_N f) = Some d ->
    exists x, Wsync.Apply.apply_op (Z.to_N bs) olds (Wsync.Apply.CRange f i sp) = Some x /\
      apply_range bs oldC olds w (Z.of_N f) (Z.of_N i) (Z.of_N sp) =
      w_write (mkW (ev (ev (w_st w) (EvSize (Z.of_N f))) (EvRead (Z.of_N f))) (w_path w) (w_off w)) x.
Proof. exact apply_range_agrees. Qed.
Print Assumptions apply_range_models_agree.

(** ... and on in-bounds operations C11's [apply_ops] (ApplyPatch) of the differ's operations
    is C01's [replay] of their translation *)
Theorem replay_agrees_with_wsync_apply :
  forall (bs : Z) (olds : list (list byte)) (src : list byte) (ops : list Wsync.Diff.op),
    0 < bs -> Forall (Wsync.Spec.range_ok (Z.to_N bs) olds) ops -> Forall (Wsync.ApplyProofs.data_ok src) ops ->
    Wsync.Apply.apply_ops (Z.to_N bs) olds (map (Wsync.Spec.conc src) ops) = Some (replay bs olds (map (tr_op src) ops)).
Proof. exact replay_agrees_apply_ops. Qed.
Print Assumptions replay_agrees_with_wsync_apply.

(** C01's hypothesis about its abstract differ, for one (preferred index, new file), holds of the
    real differ under C11's hypothesis for that file: at least one operation (an empty file
    yields exactly one empty data operation: the trailing-data enqueue of an empty buffer, let
    through by the operation cleaner because nothing was sent before), the operations replay to
    the file, every range is in bounds *)
Theorem real_differ_ok_per_file :
  forall (H : Type) (shash : list N -> H) (heqb : H -> H -> bool) (bs : Z) (maxData : N) (olds : list (list byte)),
    0 < bs -> (0 < maxData)%N -> (forall x y, heqb x y = true -> x = y) ->
  forall (pref : Z) (data : list byte),
    Wsync.Spec.strong_injective shash (Z.to_N bs) olds data ->
    real_differ shash heqb bs maxData olds pref data <> [] /\
    replay bs olds (real_differ shash heqb bs maxData olds pref data) = data /\
    Forall (range_ok bs olds) (real_differ shash heqb bs maxData olds pref data).
Proof. exact real_differ_ok_at. Qed.
Print Assumptions real_differ_ok_per_file.

(** hence [diff_ok] (which quantifies over every preferred index and every file content) *)
Theorem diff_ok_of_real_differ :
  forall (H : Type) (shash : list N -> H) (heqb : H -> H -> bool) (bs : Z) (maxData : N) (olds : list (list byte)),
    0 < bs -> (0 < maxData)%N -> (forall x y, heqb x y = true -> x = y) ->
    (forall data, Wsync.Spec.strong_injective shash (Z.to_N bs) olds data) ->
    diff_ok bs olds (real_differ shash heqb bs maxData olds).
Proof. exact diff_ok_of_real_differ_lemma. Qed.
Print Assumptions diff_ok_of_real_differ.

(** END TO END, no [diff_ok] hypothesis: for every block size and data-op limit > 0, every old
    build, every well-formed new build (sizes fitting int64), if the strong hash separates the
    blocks of the old build from the windows of each file of the new build (C11's hypothesis,
    needed only for the files WritePatch actually diffs), then applying the patch WritePatch
    produces with the real differ to an empty directory succeeds, touches every file, and the
    output tree IS the new build. *)
Theorem diff_apply_fresh_end_to_end :
  forall (H : Type) (shash : list N -> H) (heqb : H -> H -> bool)
         (bs : Z) (maxData : N) (old new : build) (algo quality : Z),
    0 < bs -> (0 < maxData)%N -> (forall x y, heqb x y = true -> x = y) ->
    Forall (fun data => Wsync.Spec.strong_injective shash (Z.to_N bs) (contents_of old) data) (contents_of new) ->
    wf_build new -> fits63 old -> fits63 new ->
    exists t touched trace,
      apply_patch_fresh bs (contents_of old) None
        (write_patch (real_differ shash heqb bs maxData (contents_of old)) algo quality old new) = Ok (t, touched, trace) /\
      touched = Z.of_nat (length (files_of new)) /\
      forall p, tlookup t p = tlookup new p.
Proof. exact diff_apply_fresh_end_to_end_lemma. Qed.
Print Assumptions diff_apply_fresh_end_to_end.

Theorem diff_apply_fresh_end_to_end_any_codec :
  forall (B : Type) (encode : list frame -> B) (decode : B -> option (list frame)),
    (forall fs, decode (encode fs) = Some fs) ->
  forall (H : Type) (shash : list N -> H) (heqb : H -> H -> bool)
         (bs : Z) (maxData : N) (old new : build) (algo quality : Z),
    0 < bs -> (0 < maxData)%N -> (forall x y, heqb x y = true -> x = y) ->
    Forall (fun data => Wsync.Spec.strong_injective shash (Z.to_N bs) (contents_of old) data) (contents_of new) ->
    wf_build new -> fits63 old -> fits63 new ->
    exists fs t touched trace,
      decode (encode (write_patch (real_differ shash heqb bs maxData (contents_of old)) algo quality old new)) = Some fs /\
      apply_patch_fresh bs (contents_of old) None fs = Ok (t, touched, trace) /\
      forall p, tlookup t p = tlookup new p.
Proof. exact diff_apply_fresh_end_to_end_any_codec_lemma. Qed.
Print Assumptions diff_apply_fresh_end_to_end_any_codec.

(** a tiny instance, executed (block size 2, data-op limit 3, strong hash := the block itself):
    an unchanged file under a new path (one merged range over all blocks => Transpose), a file
    with an insertion (range, data split at the limit, range of the short last block), an empty
    file (one empty data op), a file whose path exists in the old build (preferred index 1),
    a directory and a symlink; the old build has an empty file (synthetic empty block, never
    matched).  The per-file operations, the calls the patcher makes, the resulting tree ... *)
Definition e2e_old : build := [([1], File [1;2;3;4;5;6]); ([2], File [9;8;7]); ([7], File [])]%N.
Definition e2e_new : build :=
  [([5], Dir); ([5;1], File [1;2;3;4;5;6]); ([3], File [1;2;3;4;7;7;7;7;5;6]); ([4], File []); ([6], Link [65]);
   ([2], File [7;9;8;7;9;8])]%N.
Definition e2e_differ := real_differ (fun b : list N => b) nlist_eqb 2 3 (contents_of e2e_old).

Example diff_apply_fresh_end_to_end_example :
  map (fun f => e2e_differ (preferred_index (container_of e2e_old) (fst f)) (snd f)) (files_of e2e_new)
  = [[OpRange 0 0 3];
     [OpRange 0 0 2; OpData [7]; OpData [7;7;7]; OpRange 0 2 1];
     [OpData []];
     [OpData [7]; OpRange 1 0 1; OpData [7]; OpRange 1 0 1]]%N /\
  match apply_patch_fresh 2 (contents_of e2e_old) None (write_patch e2e_differ 2 9 e2e_old e2e_new) with
  | Ok (t, touched, trace) =>
    touched = 4 /\
    trace = [EvTranspose 0 0; EvRead 0; EvWriter 1; EvSize 0; EvRead 0; EvSize 0; EvRead 0;
             EvWriter 2; EvWriter 3; EvSize 1; EvRead 1; EvSize 1; EvRead 1] /\
    forallb (fun e => match tlookup t (fst e), snd e with
                      | Some (File a), File b => nlist_eqb a b
                      | Some Dir, Dir => true
                      | Some (Link a), Link b => nlist_eqb a b
                      | _, _ => false end) e2e_new = true
  | _ => False
  end.
Proof. vm_compute. repeat split; reflexivity. Qed.

(** ... and the theorem itself instantiated on that pair: its hypotheses hold (the identity
    "hash" is injective), so its conclusion does, without evaluating anything *)
Example diff_apply_fresh_end_to_end_instance :
  exists t touched trace,
    apply_patch_fresh 2 (contents_of e2e_old) None (write_patch e2e_differ 2 9 e2e_old e2e_new) = Ok (t, touched, trace) /\
    touched = Z.of_nat (length (files_of e2e_new)) /\
    forall p, tlookup t p = tlookup e2e_new p.
Proof.
  apply (diff_apply_fresh_end_to_end (list N) (fun b => b) nlist_eqb 2 3%N e2e_old e2e_new 2 9).
  - reflexivity.
  - reflexivity.
  - exact Wsync.Theorems.nlist_eqb_sound.
  - apply Forall_forall. intros data _. apply Wsync.Theorems.id_strong_injective.
  - apply wf_buildb_sound. vm_compute. reflexivity.
  - split; [vm_compute; discriminate|]. repeat constructor.
  - split; [vm_compute; discriminate|]. repeat constructor.
Qed.

(** ------------------------------------------------------------------------------------------
    C13 composed with C01 at Coq level (Compose/PatchBytes.v, Compose/PatchBytesProofs.v,
    Compose/PatchBytesExample.v): from MESSAGE LISTS to BYTES.

    [patch_bytes C differ algo quality old new] is the patch FILE pwr.DiffContext.WritePatch
    writes:   magic_enc PatchMagic ++ frame (marshal header) ++ compress (frames of: old
    container, new container, per new file SyncHeader, SyncOps, end marker)   with C13's
    [write_msgs] / [write_stream] for the framing; [C : patch_codecs] is the record of external
    components: a protobuf marshal / unmarshal pair per Go message type (PatchHeader,
    tlc.Container, SyncHeader, SyncOp, BsdiffHeader, Control) and the compressor / decompressor
    by algorithm.  [read_patch_bytes C cap z] is patcher.New + the reads of Resume: ExpectMagic,
    the header, DecompressWire, then C13's [read_stream] delivering the bodies, each unmarshalled
    as the Go type the patcher passes to ReadMessage at that point of the stream ([expect]);
    [apply_patch_bytes] feeds the result to C01's patcher.  The abstract codec of
    [diff_apply_fresh_end_to_end_any_codec] ([decode (encode fs) = Some fs] for EVERY frame list)
    cannot be instantiated by these functions - the bodies do not say which type they are, so
    the typed reader inverts the writer only on frame lists that follow the grammar of a patch;
    what had to be reconciled is listed at the head of Compose/PatchBytes.v.

    Hypotheses, all about external components and all in the statements:
      [codecs_roundtrip C]              unmarshal_T (marshal_T m) = Some m, per message type T
      [compression_roundtrips C a q]    a = NONE, or decompress_a (compress_(a,q) s) = Some s   (C13)
      [bodies_fit C frames]             every marshalled body is shorter than 2^56 bytes (beyond,
                                        the writer panics: C13 [varint_buffer_suffices])
    plus those of [diff_apply_fresh_end_to_end]. *)
From Wharf Require Import Wire.Frame Compose.PatchBytes Compose.PatchBytesProofs Compose.PatchBytesExample.

(** The bridge, in general (rsync and bsdiff series alike): what replaces the unsatisfiable
    "[decode (encode fs) = Some fs] for every frame list".  For every header, pair of containers
    and per-file message list in which every message is of the type the reader expects at its
    position ([grammar_ok]), the file is written and read back as exactly those frames, then
    end of stream. *)
Theorem patch_file_read_write_roundtrip :
  forall (C : patch_codecs), codecs_roundtrip C ->
  forall (cap : N) (algo quality : Z) (tc sc : container) (ms : list pmsg),
    grammar_ok ms -> compression_roundtrips C algo quality ->
    bodies_fit C (FHeader algo quality :: FContainer tc :: FContainer sc :: map FMsg ms) ->
    exists z, patch_file C algo quality (FContainer tc :: FContainer sc :: map FMsg ms) = WOk z /\
              read_patch_bytes C cap z = (FHeader algo quality :: FContainer tc :: FContainer sc :: map FMsg ms, EEOF).
Proof. exact read_patch_bytes_full. Qed.
Print Assumptions patch_file_read_write_roundtrip.

(** what WritePatch emits follows the grammar, whatever the differ *)
Theorem write_patch_follows_grammar :
  forall (differ : Z -> list byte -> list op) (old new : build), grammar_ok (patch_msgs differ old new).
Proof. exact patch_msgs_grammar. Qed.
Print Assumptions write_patch_follows_grammar.

(** For every block size and data-op limit > 0, every old build, every well-formed new build
    (C11's strong-hash hypothesis, sizes fitting int64), every codec record that round-trips
    per message type, every compression setting whose codec round-trips, every initial buffer
    capacity: WritePatch produces a file [z]; reading [z] yields exactly the frames of
    [write_patch] followed by end of stream; and patcher.New + Resume on the BYTES [z] over an
    empty directory succeeds, touches every file, and the output tree IS the new build. *)
Theorem diff_apply_fresh_bytes :
  forall (C : patch_codecs), codecs_roundtrip C ->
  forall (H : Type) (shash : list N -> H) (heqb : H -> H -> bool)
         (bs : Z) (maxData : N) (old new : build) (algo quality : Z) (cap : N),
    0 < bs -> (0 < maxData)%N -> (forall x y, heqb x y = true -> x = y) ->
    Forall (fun data => Wsync.Spec.strong_injective shash (Z.to_N bs) (contents_of old) data) (contents_of new) ->
    wf_build new -> fits63 old -> fits63 new ->
    compression_roundtrips C algo quality ->
    bodies_fit C (write_patch (real_differ shash heqb bs maxData (contents_of old)) algo quality old new) ->
    exists z t touched trace,
      patch_bytes C (real_differ shash heqb bs maxData (contents_of old)) algo quality old new = WOk z /\
      read_patch_bytes C cap z = (write_patch (real_differ shash heqb bs maxData (contents_of old)) algo quality old new, EEOF) /\
      apply_patch_bytes C bs (contents_of old) None cap z = Ok (t, touched, trace) /\
      touched = Z.of_nat (length (files_of new)) /\
      forall p, tlookup t p = tlookup new p.
Proof. exact diff_apply_fresh_bytes_lemma. Qed.
Print Assumptions diff_apply_fresh_bytes.

(** the same with C01's abstract differ under [diff_ok] *)
Theorem diff_apply_fresh_bytes_abstract_differ :
  forall (C : patch_codecs), codecs_roundtrip C ->
  forall (bs : Z) (differ : Z -> list byte -> list op) (old new : build) (algo quality : Z) (cap : N),
    0 < bs -> wf_build new -> fits63 old -> fits63 new -> diff_ok bs (contents_of old) differ ->
    compression_roundtrips C algo quality ->
    bodies_fit C (write_patch differ algo quality old new) ->
    exists z t touched trace,
      patch_bytes C differ algo quality old new = WOk z /\
      read_patch_bytes C cap z = (write_patch differ algo quality old new, EEOF) /\
      apply_patch_bytes C bs (contents_of old) None cap z = Ok (t, touched, trace) /\
      touched = Z.of_nat (length (files_of new)) /\
      forall p, tlookup t p = tlookup new p.
Proof. exact diff_apply_fresh_bytes_abstract_lemma. Qed.
Print Assumptions diff_apply_fresh_bytes_abstract_differ.

(** C01's patcher on a proper prefix of the frames of a patch returns an error: not Ok (no
    silently incomplete tree), not a panic (every loop that needs a message and finds the list
    exhausted returns the error of that ReadMessage call; the frames before the cut are those of
    the successful run) *)
Theorem patcher_rejects_truncated_frames :
  forall (bs : Z) (differ : Z -> list byte -> list op) (old new : build) (algo quality : Z) (k : nat),
    0 < bs -> wf_build new -> fits63 old -> fits63 new -> diff_ok bs (contents_of old) differ ->
    (k < length (write_patch differ algo quality old new))%nat ->
    apply_patch_fresh bs (contents_of old) None (firstn k (write_patch differ algo quality old new)) = Err.
Proof. exact apply_truncated_frames. Qed.
Print Assumptions patcher_rejects_truncated_frames.

(** A patch file cut at ANY byte never yields a wrong tree silently.  [p] = the bytes before
    the cut ([q <> []] was lost).  With C13's [truncated_stream] (prefix-freeness of the framing):
    the reader obtains the first [k] frames of the patch and then io.EOF / io.ErrUnexpectedEOF -
    never a wrong frame - and the patcher returns an error, or (only possible when the
    decompressor delivered the whole content from the cut stream, e.g. a gzip stream lacking
    only its trailer: the patcher does not read past the last file) the tree of the whole patch.
    Hypothesis about the decompressor ([truncation_prefix]; nothing for NONE): from a cut of
    [compress s] it delivers, if anything, a prefix of [s].  If it never delivers everything
    from a cut stream ([truncation_detected]; NONE always), [k] is smaller than the number of
    frames and the patcher returns an error. *)
Theorem truncated_patch_is_an_error_or_prefix :
  forall (C : patch_codecs), codecs_roundtrip C ->
  forall (H : Type) (shash : list N -> H) (heqb : H -> H -> bool)
         (bs : Z) (maxData : N) (old new : build) (algo quality : Z) (cap : N) (p q : list byte),
    0 < bs -> (0 < maxData)%N -> (forall x y, heqb x y = true -> x = y) ->
    Forall (fun data => Wsync.Spec.strong_injective shash (Z.to_N bs) (contents_of old) data) (contents_of new) ->
    wf_build new -> fits63 old -> fits63 new ->
    truncation_prefix C algo quality ->
    bodies_fit C (write_patch (real_differ shash heqb bs maxData (contents_of old)) algo quality old new) ->
    patch_bytes C (real_differ shash heqb bs maxData (contents_of old)) algo quality old new = WOk (p ++ q) -> q <> [] ->
    exists k e,
      read_patch_bytes C cap p = (firstn k (write_patch (real_differ shash heqb bs maxData (contents_of old)) algo quality old new), e) /\
      (e = EEOF \/ e = EUnexpectedEOF) /\
      (apply_patch_bytes C bs (contents_of old) None cap p = Err \/
       (exists t touched trace, apply_patch_bytes C bs (contents_of old) None cap p = Ok (t, touched, trace) /\
                                forall x, tlookup t x = tlookup new x)) /\
      (truncation_detected C algo quality ->
       (k < length (write_patch (real_differ shash heqb bs maxData (contents_of old)) algo quality old new))%nat /\
       apply_patch_bytes C bs (contents_of old) None cap p = Err).
Proof. exact truncated_patch_lemma. Qed.
Print Assumptions truncated_patch_is_an_error_or_prefix.

(** ... in short, when the decompressor notices a cut (NONE: [truncation_detected_none]) *)
Theorem truncated_patch_is_an_error :
  forall (C : patch_codecs), codecs_roundtrip C ->
  forall (H : Type) (shash : list N -> H) (heqb : H -> H -> bool)
         (bs : Z) (maxData : N) (old new : build) (algo quality : Z) (cap : N) (p q : list byte),
    0 < bs -> (0 < maxData)%N -> (forall x y, heqb x y = true -> x = y) ->
    Forall (fun data => Wsync.Spec.strong_injective shash (Z.to_N bs) (contents_of old) data) (contents_of new) ->
    wf_build new -> fits63 old -> fits63 new ->
    truncation_detected C algo quality ->
    bodies_fit C (write_patch (real_differ shash heqb bs maxData (contents_of old)) algo quality old new) ->
    patch_bytes C (real_differ shash heqb bs maxData (contents_of old)) algo quality old new = WOk (p ++ q) -> q <> [] ->
    apply_patch_bytes C bs (contents_of old) None cap p = Err.
Proof. exact truncated_patch_is_an_error_lemma. Qed.
Print Assumptions truncated_patch_is_an_error.

Theorem uncompressed_patches_detect_truncation :
  forall (C : patch_codecs) (quality : Z), truncation_detected C ALGO_NONE quality.
Proof. exact truncation_detected_none. Qed.

(** non-vacuity: a toy codec record (numbers and length-prefixed lists, identity compressor
    under every algorithm; Compose/PatchBytesExample.v) satisfies the hypotheses ... *)
Example codec_hypotheses_inhabited :
  codecs_roundtrip toy_codecs /\
  (forall algo quality, compression_roundtrips toy_codecs algo quality) /\
  (forall algo quality, truncation_detected toy_codecs algo quality).
Proof.
  split; [exact toy_codecs_roundtrip|]. split; [exact toy_compression_roundtrips|exact toy_truncation_detected].
Qed.

(** ... and on the build pair of [diff_apply_fresh_end_to_end_example], executed: the file is
    written (algorithm 2, quality 9), reading it gives back the frames, applying the BYTES
    gives the new build, and each of its proper prefixes makes the patcher return an error *)
Example diff_apply_fresh_bytes_example :
  match patch_bytes toy_codecs e2e_differ 2 9 e2e_old e2e_new with
  | WOk z =>
    firstn 7 z = [0; 95; 239; 15; 2; 4; 18]%N /\          (* 0x0FEF5F00 little endian; header frame; ... *)
    read_patch_bytes toy_codecs 32768 z = (write_patch e2e_differ 2 9 e2e_old e2e_new, EEOF) /\
    match apply_patch_bytes toy_codecs 2 (contents_of e2e_old) None 32768 z with
    | Ok (t, touched, trace) =>
      touched = 4 /\
      forallb (fun e => match tlookup t (fst e), snd e with
                        | Some (File a), File b => nlist_eqb a b
                        | Some Dir, Dir => true
                        | Some (Link a), Link b => nlist_eqb a b
                        | _, _ => false end) e2e_new = true
    | _ => False
    end /\
    all_cuts_fail 2 (contents_of e2e_old) 32768 z = true
  | WPanic => False
  end.
Proof. vm_compute. repeat split; reflexivity. Qed.

(** ... and the theorem itself instantiated on that pair and that codec *)
Example diff_apply_fresh_bytes_instance :
  exists z t touched trace,
    patch_bytes toy_codecs e2e_differ 2 9 e2e_old e2e_new = WOk z /\
    read_patch_bytes toy_codecs 32768 z = (write_patch e2e_differ 2 9 e2e_old e2e_new, EEOF) /\
    apply_patch_bytes toy_codecs 2 (contents_of e2e_old) None 32768 z = Ok (t, touched, trace) /\
    touched = Z.of_nat (length (files_of e2e_new)) /\
    forall p, tlookup t p = tlookup e2e_new p.
Proof.
  apply (diff_apply_fresh_bytes toy_codecs toy_codecs_roundtrip (list N) (fun b => b) nlist_eqb 2 3%N e2e_old e2e_new 2 9 32768%N).
  - reflexivity.
  - reflexivity.
  - exact Wsync.Theorems.nlist_eqb_sound.
  - apply Forall_forall. intros data _. apply Wsync.Theorems.id_strong_injective.
  - apply wf_buildb_sound. vm_compute. reflexivity.
  - split; [vm_compute; discriminate|]. repeat constructor.
  - split; [vm_compute; discriminate|]. repeat constructor.
  - apply toy_compression_roundtrips.
  - unfold bodies_fit. apply Forall_forall. intros f Hin. vm_compute in Hin.
    repeat (destruct Hin as [<-|Hin]; [vm_compute; reflexivity|]). destruct Hin.
Qed.
