(** placeholder, replaced once the proofs are in *)
From Wharf Require Import Base.Prelude.
