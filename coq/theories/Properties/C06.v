(** C06 — healing from an archive restores any damaged directory to the signed build; healing a
    valid directory changes nothing.
    Only statements, [exact], and [Print Assumptions]; models: FS/Tree.v, FS/Ops.v,
    Heal/Validator.v, Heal/Healer.v; proofs: FS/*Proofs.v, Heal/HealLemmas.v, HealProofs.v,
    HealMeasure.v, HealMain.v, HealWitness.v.

    The model is the three-thread transition system validator / healer / heal worker over the
    filesystem model, with the wound channel of capacity [cap]; the schedule is the list of
    thread ids [sched] (a blocked or finished thread's turn is a no-op).  [fixed] is the code
    with the two repairs made for this property (ENOTDIR treated as missing; everything below
    a wounded directory is wounded without looking at the disk). *)
From Wharf Require Import FS.Light FS.Tree FS.Ops FS.OpsProofs
     Heal.Validator Heal.Healer Heal.HealMeasure Heal.HealMain Heal.HealWitness.

(** For all signed builds (well-formed containers), all damaged trees - any finite map from
    paths to files / directories / symlinks, the target missing, empty, or any directory below
    real directories - all channel capacities >= 1 and ALL interleavings [sched]: in the state
    reached,
    (1) if Validate has returned, it returned nil, every directory, symlink and file of the
        build is there with the signed content, and fail-fast validation of that tree passes;
    (2) if no thread can move, Validate has returned (no deadlock);
    (3) every effective step of any thread decreases the measure [mu], which never exceeds its
        initial value: every execution is finite, at most [mu b (init b t0)] effective steps. *)
Theorem heal_restores :
  forall (cap : nat), 0 < cap ->
  forall (b : build), wf_build b = true ->
  forall (T : path) (t0 : tree), init_ok T t0 = true ->
  forall sched : list tid,
    let s := run fixed cap b T sched (init b t0) in
    (terminal s = true ->
       result s = Some (Ok tt) /\ restored b T (s_fs s) /\ ff_valid fixed b T (s_fs s) = true) /\
    ((forall i, step fixed cap b T s i = None) -> terminal s = true) /\
    (forall i s', step fixed cap b T s i = Some s' -> mu b s' < mu b s) /\
    mu b s <= mu b (init b t0).
Proof. exact heal_restores_lemma. Qed.
Print Assumptions heal_restores.

(** The same as a statement about complete runs: any schedule prefix continued by any fixed
    priority among the three threads until nobody can move, with fuel [>= mu b (init b t0)]
    (= 3 dirs + 3 symlinks + 7 files + 8): ends returned, nil, restored, fail-fast valid. *)
Theorem heal_completes :
  forall (cap : nat), 0 < cap ->
  forall (b : build), wf_build b = true ->
  forall (T : path) (t0 : tree), init_ok T t0 = true ->
  forall (sched prio : list tid) (fuel : nat),
    In TV prio -> In TH prio -> In TW prio -> mu b (init b t0) <= fuel ->
    let s := finish fixed cap b T fuel prio (run fixed cap b T sched (init b t0)) in
    terminal s = true /\ result s = Some (Ok tt) /\ restored b T (s_fs s) /\
    ff_valid fixed b T (s_fs s) = true.
Proof. exact heal_completes_lemma. Qed.
Print Assumptions heal_completes.

(** Healing a directory that fail-fast validation accepts changes nothing, under every
    interleaving (for either variant of the code, any capacity, any container). *)
Theorem heal_idempotent :
  forall (fx : fixes) (cap : nat) (b : build) (T : path) (t0 : tree),
    init_ok T t0 = true -> node_at t0 T = Some Dir -> ff_valid fx b T t0 = true ->
    forall sched : list tid, s_fs (run fx cap b T sched (init b t0)) = t0.
Proof. exact heal_idempotent_lemma. Qed.
Print Assumptions heal_idempotent.

(** a tree that contains the build literally passes fail-fast validation *)
Theorem restored_passes_failfast :
  forall fx b T t, restored b T t -> ff_valid fx b T t = true.
Proof. exact restored_ff_valid. Qed.
Print Assumptions restored_passes_failfast.

(** filesystem model: a path whose proper prefixes are all real directories resolves to itself *)
Theorem literal_resolution :
  forall t fl p, lit t p -> (fl = true -> forall d, node_at t p <> Some (Link d)) -> resolve t fl p = Ok p.
Proof. exact resolve_lit. Qed.
Print Assumptions literal_resolution.

(** Before the repairs the statement was false of the faithful model.
    (i) defect #11: a directory with a nested directory replaced by a regular file: Validate
    returns ENOTDIR (schedule: the healer lags behind the directory pass). *)
Theorem heal_restores_refuted_before_enotdir_fix :
  exists b T t0 prio,
    wf_build b = true /\ init_ok T t0 = true /\
    let s := finish unfixed 1024 b T 100 prio (init b t0) in
    terminal s = true /\ result s = Some (Err ENOTDIR).
Proof. exact enotdir_refuted_lemma. Qed.
Print Assumptions heal_restores_refuted_before_enotdir_fix.

(** (ii) with only the first repair: a directory replaced by a symlink to a directory with equal
    children: the children validate through the link, the healer replaces the link by an empty
    directory; Validate returns nil and the entries below are gone. *)
Theorem heal_hidden_subtree_refuted_before_taint_fix :
  exists b T t0 prio,
    wf_build b = true /\ init_ok T t0 = true /\
    let s := finish (mkFixes true false) 1024 b T 100 prio (init b t0) in
    terminal s = true /\ result s = Some (Ok tt) /\
    restoredb b T (s_fs s) = false /\
    lstat (s_fs s) (T ++ [1; 2]%N) = Err ENOENT /\
    lstat (s_fs s) (T ++ [1; 2; 3]%N) = Err ENOENT.
Proof. exact hidden_subtree_refuted_lemma. Qed.
Print Assumptions heal_hidden_subtree_refuted_before_taint_fix.

(** non-vacuity: the hypotheses of [heal_restores] hold for the two witnesses and for a missing
    target, and the repaired code heals all three *)
Example heal_witnesses_healed :
  wf_build w_build = true /\ init_ok w_target w_tree_file = true /\ init_ok w_target w_tree_link = true /\
  init_ok w_target [] = true /\
  (let s := w_run fixed w_tree_file in
   terminal s = true /\ result s = Some (Ok tt) /\ restoredb w_build w_target (s_fs s) = true) /\
  (let s := w_run fixed w_tree_link in
   terminal s = true /\ result s = Some (Ok tt) /\ restoredb w_build w_target (s_fs s) = true) /\
  (let s := w_run fixed [] in
   terminal s = true /\ result s = Some (Ok tt) /\ restoredb w_build w_target (s_fs s) = true).
Proof. exact witnesses_healed_lemma. Qed.
Print Assumptions heal_witnesses_healed.
