(** C06 — healing from an archive restores any damaged directory to the signed build; healing a
    valid directory changes nothing.
    Only statements, [exact], and [Print Assumptions]; models: FS/Tree.v, FS/Ops.v,
    Heal/Validator.v, Heal/Healer.v; proofs: FS/*Proofs.v, Heal/HealLemmas.v, HealProofs.v,
    HealMeasure.v, HealMain.v, HealWitness.v.

    The model is the three-thread transition system validator / healer / heal worker over the
    filesystem model, with the wound channel of capacity [cap]; the schedule is the list of
    thread ids [sched] (a blocked or finished thread's turn is a no-op).  [fixed] is the code
    with the two repairs made for this property (ENOTDIR treated as missing; everything below
    a wounded directory is wounded without looking at the disk). *)
From Wharf Require Import FS.Light FS.Tree FS.Ops FS.OpsProofs
     Heal.Validator Heal.Healer Heal.HealMeasure Heal.HealMain Heal.HealWitness
     Heal.HealProofs Heal.HealInv2 Heal.Granular Heal.GranularProofs Heal.GranularWitness.

(** For all signed builds (well-formed containers), all damaged trees - any finite map from
    paths to files / directories / symlinks, the target missing, empty, or any directory below
    real directories - all channel capacities >= 1 and ALL interleavings [sched]: in the state
    reached,
    (1) if Validate has returned, it returned nil, every directory, symlink and file of the
        build is there with the signed content, and fail-fast validation of that tree passes;
    (2) if no thread can move, Validate has returned (no deadlock);
    (3) every effective step of any thread decreases the measure [mu], which never exceeds its
        initial value: every execution is finite, at most [mu b (init b t0)] effective steps. *)
Theorem heal_restores :
  forall (cap : nat), 0 < cap ->
  forall (b : build), wf_build b = true ->
  forall (T : path) (t0 : tree), init_ok T t0 = true ->
  forall sched : list tid,
    let s := run fixed cap b T sched (init b t0) in
    (terminal s = true ->
       result s = Some (Ok tt) /\ restored b T (s_fs s) /\ ff_valid fixed b T (s_fs s) = true) /\
    ((forall i, step fixed cap b T s i = None) -> terminal s = true) /\
    (forall i s', step fixed cap b T s i = Some s' -> mu b s' < mu b s) /\
    mu b s <= mu b (init b t0).
Proof. exact heal_restores_lemma. Qed.
Print Assumptions heal_restores.

(** The same as a statement about complete runs: any schedule prefix continued by any fixed
    priority among the three threads until nobody can move, with fuel [>= mu b (init b t0)]
    (= 3 dirs + 3 symlinks + 7 files + 8): ends returned, nil, restored, fail-fast valid. *)
Theorem heal_completes :
  forall (cap : nat), 0 < cap ->
  forall (b : build), wf_build b = true ->
  forall (T : path) (t0 : tree), init_ok T t0 = true ->
  forall (sched prio : list tid) (fuel : nat),
    In TV prio -> In TH prio -> In TW prio -> mu b (init b t0) <= fuel ->
    let s := finish fixed cap b T fuel prio (run fixed cap b T sched (init b t0)) in
    terminal s = true /\ result s = Some (Ok tt) /\ restored b T (s_fs s) /\
    ff_valid fixed b T (s_fs s) = true.
Proof. exact heal_completes_lemma. Qed.
Print Assumptions heal_completes.

(** Healing a directory that fail-fast validation accepts changes nothing, under every
    interleaving (for either variant of the code, any capacity, any container). *)
Theorem heal_idempotent :
  forall (fx : fixes) (cap : nat) (b : build) (T : path) (t0 : tree),
    init_ok T t0 = true -> node_at t0 T = Some Dir -> ff_valid fx b T t0 = true ->
    forall sched : list tid, s_fs (run fx cap b T sched (init b t0)) = t0.
Proof. exact heal_idempotent_lemma. Qed.
Print Assumptions heal_idempotent.

(** a tree that contains the build literally passes fail-fast validation *)
Theorem restored_passes_failfast :
  forall fx b T t, restored b T t -> ff_valid fx b T t = true.
Proof. exact restored_ff_valid. Qed.
Print Assumptions restored_passes_failfast.

(** filesystem model: a path whose proper prefixes are all real directories resolves to itself *)
Theorem literal_resolution :
  forall t fl p, lit t p -> (fl = true -> forall d, node_at t p <> Some (Link d)) -> resolve t fl p = Ok p.
Proof. exact resolve_lit. Qed.
Print Assumptions literal_resolution.

(** Before the repairs the statement was false of the faithful model.
    (i) defect #11: a directory with a nested directory replaced by a regular file: Validate
    returns ENOTDIR (schedule: the healer lags behind the directory pass). *)
Theorem heal_restores_refuted_before_enotdir_fix :
  exists b T t0 prio,
    wf_build b = true /\ init_ok T t0 = true /\
    let s := finish unfixed 1024 b T 100 prio (init b t0) in
    terminal s = true /\ result s = Some (Err ENOTDIR).
Proof. exact enotdir_refuted_lemma. Qed.
Print Assumptions heal_restores_refuted_before_enotdir_fix.

(** (ii) with only the first repair: a directory replaced by a symlink to a directory with equal
    children: the children validate through the link, the healer replaces the link by an empty
    directory; Validate returns nil and the entries below are gone. *)
Theorem heal_hidden_subtree_refuted_before_taint_fix :
  exists b T t0 prio,
    wf_build b = true /\ init_ok T t0 = true /\
    let s := finish (mkFixes true false) 1024 b T 100 prio (init b t0) in
    terminal s = true /\ result s = Some (Ok tt) /\
    restoredb b T (s_fs s) = false /\
    lstat (s_fs s) (T ++ [1; 2]%N) = Err ENOENT /\
    lstat (s_fs s) (T ++ [1; 2; 3]%N) = Err ENOENT.
Proof. exact hidden_subtree_refuted_lemma. Qed.
Print Assumptions heal_hidden_subtree_refuted_before_taint_fix.

(** non-vacuity: the hypotheses of [heal_restores] hold for the two witnesses and for a missing
    target, and the repaired code heals all three *)
Example heal_witnesses_healed :
  wf_build w_build = true /\ init_ok w_target w_tree_file = true /\ init_ok w_target w_tree_link = true /\
  init_ok w_target [] = true /\
  (let s := w_run fixed w_tree_file in
   terminal s = true /\ result s = Some (Ok tt) /\ restoredb w_build w_target (s_fs s) = true) /\
  (let s := w_run fixed w_tree_link in
   terminal s = true /\ result s = Some (Ok tt) /\ restoredb w_build w_target (s_fs s) = true) /\
  (let s := w_run fixed [] in
   terminal s = true /\ result s = Some (Ok tt) /\ restoredb w_build w_target (s_fs s) = true).
Proof. exact witnesses_healed_lemma. Qed.
Print Assumptions heal_witnesses_healed.

(** ---------------------------------------------------------------------------------------------
    ONE FILESYSTEM OPERATION PER STEP.

    In the transition system above one entry check of the validator, one [processWound] of the
    healer and the [GetWriter] of the heal worker are single steps.  [Heal/Granular.v] is the
    finer system in which every step of every goroutine performs at most ONE operation of
    [FS/Ops.v] (validator: Lstat, then Readlink / open+read; healer: receive, Lstat, Remove,
    MkdirAll / MkdirAll(dir), Lstat, RemoveAll | Remove, Symlink; worker: receive, MkdirAll(dir),
    Lstat, RemoveAll | Remove, OpenFile(O_CREATE|O_TRUNC), write), the goroutine remembering in
    its program counter where it is; an operation that fails ends the goroutine with that error
    and the tree as it is at that point.  [sched] interleaves these single operations
    arbitrarily.  Proofs: [Heal/HealInv2.v], [Heal/GranularProofs.v].

    REDUCTION.  [abs] maps a granular state to the atomic state in which the [processWound] /
    [GetWriter] in progress is finished and the validator's half-done check has not started.
    For every interleaving of single operations there is a schedule of the atomic system, not
    longer, that reaches exactly [abs g]; when no healer / worker call is in progress - in
    particular whenever [Validate] has returned - the shared state (tree, result, channel,
    queues) IS the state reached by that atomic schedule.  So every final tree and every result
    of the granular system is a final tree and result of the atomic system: the atomicity
    assumption of the three-thread model costs nothing (at the granularity of [FS/Ops.v]). *)
Theorem granular_refines_atomic :
  forall (cap : nat), 0 < cap ->
  forall (b : build), wf_build b = true ->
  forall (T : path) (t0 : tree), init_ok T t0 = true ->
  forall gsched : list tid,
    let g := grun fixed cap b T gsched (ginit b t0) in
    exists asched : list tid,
      length asched <= length gsched /\
      abs T g = run fixed cap b T asched (init b t0) /\
      (g_h g = HP0 -> g_w g = WP0 -> g_s g = run fixed cap b T asched (init b t0)) /\
      (gterminal g = true -> g_s g = run fixed cap b T asched (init b t0)).
Proof. exact granular_refines_lemma. Qed.
Print Assumptions granular_refines_atomic.

(** [heal_restores] for the granular system, same statement: for all capacities >= 1, well-formed
    containers, damaged trees and ALL interleavings of the single filesystem operations,
    (1) if Validate has returned, it returned nil, the build is restored, fail-fast passes;
    (2) if no goroutine can move, Validate has returned;
    (3) every effective step decreases [gmu] = 10 * [mu] of the abstract state + the number of
        operations left inside the calls in progress (<= 9), which never exceeds its initial
        value 10 * mu b (init b t0) + 1. *)
Theorem heal_restores_granular :
  forall (cap : nat), 0 < cap ->
  forall (b : build), wf_build b = true ->
  forall (T : path) (t0 : tree), init_ok T t0 = true ->
  forall sched : list tid,
    let g := grun fixed cap b T sched (ginit b t0) in
    (gterminal g = true ->
       gresult g = Some (Ok tt) /\ restored b T (g_fs g) /\ ff_valid fixed b T (g_fs g) = true) /\
    ((forall i, gstep fixed cap b T g i = None) -> gterminal g = true) /\
    (forall i g', gstep fixed cap b T g i = Some g' -> gmu b T g' < gmu b T g) /\
    gmu b T g <= gmu b T (ginit b t0).
Proof. exact heal_restores_granular_lemma. Qed.
Print Assumptions heal_restores_granular.

Theorem heal_completes_granular :
  forall (cap : nat), 0 < cap ->
  forall (b : build), wf_build b = true ->
  forall (T : path) (t0 : tree), init_ok T t0 = true ->
  forall (sched prio : list tid) (fuel : nat),
    In TV prio -> In TH prio -> In TW prio -> gmu b T (ginit b t0) <= fuel ->
    let g := gfinish fixed cap b T fuel prio (grun fixed cap b T sched (ginit b t0)) in
    gterminal g = true /\ gresult g = Some (Ok tt) /\ restored b T (g_fs g) /\
    ff_valid fixed b T (g_fs g) = true.
Proof. exact heal_completes_granular_lemma. Qed.
Print Assumptions heal_completes_granular.

(** healing a valid directory changes nothing, under every interleaving of single operations
    (either variant of the code, any capacity, any container) *)
Theorem heal_idempotent_granular :
  forall (fx : fixes) (cap : nat) (b : build) (T : path) (t0 : tree),
    init_ok T t0 = true -> node_at t0 T = Some Dir -> ff_valid fx b T t0 = true ->
    forall sched : list tid, g_fs (grun fx cap b T sched (ginit b t0)) = t0.
Proof. exact heal_idempotent_granular_lemma. Qed.
Print Assumptions heal_idempotent_granular.

(** the order of events behind the reduction, for the atomic system (any variant of the code):
    an invariant of every step from a state satisfying [INV] *)
Theorem atomic_event_order_invariant :
  forall (fx : fixes) (cap : nat) (b : build) (T : path) (s : state) (i : tid) (s' : state),
    INV b T s -> Inv2 b s -> step fx cap b T s i = Some s' -> Inv2 b s'.
Proof. exact step_inv2. Qed.
Print Assumptions atomic_event_order_invariant.

(** non-vacuity: the goroutines really are inside their calls at the same time (validator
    between Lstat and Readlink of one entry while the healer is between Lstat and Remove of
    another), and the witnesses are healed under round-robin schedules of single operations *)
Example granular_witnesses :
  (let g := grun fixed 1024 w_build w_target gw_prefix (ginit w_build w_tree_link) in
   g_v g = VPmid /\ g_h g = HPDirRemove [1%N] /\ quiescent g = false /\
   let g' := gfinish fixed 1024 w_build w_target 400 [TV; TH; TW] g in
   gterminal g' = true /\ gresult g' = Some (Ok tt) /\ restoredb w_build w_target (g_fs g') = true) /\
  (let g := grun fixed 1 w_build w_target (round_robin 60) (ginit w_build w_tree_link) in
   gterminal g = true /\ gresult g = Some (Ok tt) /\ restoredb w_build w_target (g_fs g) = true) /\
  (let g := grun fixed 1 w_build w_target (round_robin 60) (ginit w_build w_tree_file) in
   gterminal g = true /\ gresult g = Some (Ok tt) /\ restoredb w_build w_target (g_fs g) = true) /\
  (let g := grun fixed 2 w_build w_target (round_robin 60) (ginit w_build []) in
   gterminal g = true /\ gresult g = Some (Ok tt) /\ restoredb w_build w_target (g_fs g) = true).
Proof. exact granular_witness_lemma. Qed.
Print Assumptions granular_witnesses.
