(** C07 - placeholder, theorems follow *)
From Wharf Require Import Base.Prelude Val.Drip Val.VPool Patch.Rediff.
Local Open Scope Z_scope.
Example c07_placeholder : select (fun _ => false) [(1, 5); (2, 7)] = Some (2, 7).
Proof. reflexivity. Qed.
