(** C07 - optimizing a patch never changes what it produces.
    Only statements, [exact], and [Print Assumptions]; the model is Patch/Rediff.v (with
    Val/VPool.v for ComputeBlockSize), the proofs are in Patch/RediffProofs.v.

    The analysis pass iterates a Go map; the model takes the iteration order [ord] as an
    argument and the theorems hold for every permutation [ord] of the reused-bytes map.  The
    series themselves are abstract: [den_rsync] / [den_bsdiff] give the result of applying an
    rsync series to the old build / a bsdiff series to one old file, [bsdiff_do] is the
    scanner; that the series it computes reproduces the new file is the hypothesis
    [bsdiff_roundtrip] (property C12), that the original series of each new file reproduces
    it is [original_correct] (C01/C11).  The optimizer's own crashes on tiny files are the two
    bsdiff defects reported as known findings; they live below [bsdiff_do]. *)
From Wharf Require Import Base.Prelude Val.Drip Val.VPool Patch.Rediff Patch.RediffProofs.
From Coq Require Import Permutation.
Local Open Scope Z_scope.

(** Whatever the order in which the map is visited, the selection loop ends on an entry that
    has the largest reused-bytes figure, and on a same-path entry whenever one of those has
    the largest figure; with no entries it selects nothing. *)
Theorem select_any_order :
  forall (same : Z -> bool) (m ord : list (Z * Z)), Permutation ord m ->
    match select same ord with
    | None => m = []
    | Some e => In e m /\ (forall x, In x m -> snd x <= snd e) /\
                ((exists x, In x m /\ snd x = snd e /\ same (fst x) = true) -> same (fst e) = true)
    end.
Proof. exact select_any_order_lemma. Qed.
Print Assumptions select_any_order.

(** The mapping chosen for a new file (block size, ForceMapAll, size limit, old sizes, map
    order all arbitrary): the old file index is in range, neither file exceeds the size limit,
    and the old file is a choice of the rule above - or, when no block of any old file is
    reused, the non-empty old file of the same path. *)
Theorem analyze_choice_sound :
  forall (bs : Z) (force : bool) (limit : Z) (tsizes : list Z)
         (ssize : Z) (sp : option Z) (ops : list sop) (ord m : list (Z * Z)) (i b : Z),
    reused bs tsizes ops = Some m -> Permutation ord m ->
    (forall k, sp = Some k -> in_range tsizes k) ->
    analyze_file bs force limit tsizes ssize sp ops ord = Some (Some (i, b)) ->
    in_range tsizes i /\ ssize <= limit /\ tsize tsizes i <= limit /\
    ((m <> [] /\ is_choice (same_of sp) m (i, b)) \/
     (m = [] /\ sp = Some i /\ b = 0 /\ 0 < tsize tsizes i)).
Proof. exact analyze_choice_sound_lemma. Qed.
Print Assumptions analyze_choice_sound.

(** the analysis does not panic on a patch whose block ranges name existing old files *)
Theorem analyze_total :
  forall (bs : Z) (force : bool) (limit : Z) (tsizes : list Z)
         (ssize : Z) (sp : option Z) (ops : list sop) (ord m : list (Z * Z)),
    reused bs tsizes ops = Some m -> analyze_file bs force limit tsizes ssize sp ops ord <> None.
Proof. exact analyze_file_total. Qed.
Print Assumptions analyze_total.

(** the order-free description used by the correspondence check covers every order *)
Theorem analyze_allowed_complete :
  forall (bs : Z) (force : bool) (limit : Z) (tsizes : list Z)
         (ssize : Z) (sp : option Z) (ops : list sop) (ord m : list (Z * Z)) (r : option (Z * Z)),
    reused bs tsizes ops = Some m -> Permutation ord m ->
    analyze_file bs force limit tsizes ssize sp ops ord = Some r ->
    exists l, analyze_allowed bs force limit tsizes ssize sp ops = Some l /\ In r l.
Proof. exact analyze_in_allowed. Qed.
Print Assumptions analyze_allowed_complete.

(** The second pass: with every mapped index in range, the optimized patch exists and, file by
    file, applies to the old build with the result of the original patch, i.e. the new build. *)
Theorem optimize_preserves :
  forall (Content RSeries BSeries : Type)
         (den_rsync : RSeries -> list Content -> option Content)
         (den_bsdiff : BSeries -> Content -> option Content)
         (bsdiff_do : Content -> Content -> BSeries),
    (forall old new, den_bsdiff (bsdiff_do old new) old = Some new) ->
  forall (olds : list Content) (xs : list (RSeries * Content * option (Z * Z))),
    Forall (mapping_in_range olds) xs -> Forall (original_correct den_rsync olds) xs ->
    exists opt, optimize bsdiff_do olds xs = Some opt /\
                apply_patch den_rsync den_bsdiff olds opt = apply_patch den_rsync den_bsdiff olds (map (fun x => Rsync (fst (fst x))) xs) /\
                apply_patch den_rsync den_bsdiff olds opt = map (fun x => Some (snd (fst x))) xs.
Proof. exact (@optimize_preserves_lemma). Qed.
Print Assumptions optimize_preserves.

(** Both passes: for every parameter setting and every iteration order of every map, the
    analysis yields mappings and the patch rewritten with them produces the new build. *)
Theorem rediff_preserves :
  forall (Content RSeries BSeries : Type)
         (den_rsync : RSeries -> list Content -> option Content)
         (den_bsdiff : BSeries -> Content -> option Content)
         (bsdiff_do : Content -> Content -> BSeries),
    (forall old new, den_bsdiff (bsdiff_do old new) old = Some new) ->
  forall (bs : Z) (force : bool) (limit : Z) (tsizes : list Z) (olds : list Content),
    length olds = length tsizes ->
  forall fs : list (@file_in Content RSeries),
    Forall (file_valid den_rsync bs tsizes olds) fs ->
    exists xs opt,
      analyze_all bs force limit tsizes fs = Some xs /\ optimize bsdiff_do olds xs = Some opt /\
      apply_patch den_rsync den_bsdiff olds opt = map (fun f : @file_in Content RSeries => Some (snd f)) fs.
Proof. exact (@rediff_preserves_lemma). Qed.
Print Assumptions rediff_preserves.

(** non-vacuity and the arithmetic of the code: a 100-byte old file copied whole counts for
    65635 "reused bytes" (64 KiB * 1 - 1 + 100); two old files tie at 131071 for a new file
    that takes one block of each, and the one with the new file's path wins whatever the order *)
Example analyze_example :
  analyze_file 65536 true 4294967296 [100] 100 (Some 0) [SRange 0 0 1] [(0, 65635)] = Some (Some (0, 65635)) /\
  reused 65536 [200000; 200000] [SRange 0 0 1; SData 7; SRange 1 0 1] = Some [(0, 131071); (1, 131071)] /\
  analyze_file 65536 false 4294967296 [200000; 200000] 131079 (Some 1) [SRange 0 0 1; SData 7; SRange 1 0 1] [(0, 131071); (1, 131071)] = Some (Some (1, 131071)) /\
  analyze_file 65536 false 4294967296 [200000; 200000] 131079 (Some 1) [SRange 0 0 1; SData 7; SRange 1 0 1] [(1, 131071); (0, 131071)] = Some (Some (1, 131071)) /\
  analyze_allowed 65536 false 4294967296 [200000; 200000] 131079 None [SRange 0 0 1; SData 7; SRange 1 0 1] = Some [Some (0, 131071); Some (1, 131071)].
Proof. vm_compute. repeat split; reflexivity. Qed.

(** ------------------------------------------------------------------------------------------
    The cross-property hypotheses discharged (Compose/OptimizeApply.v, proofs in
    Compose/OptimizeApplyProofs.v).  The abstract series are instantiated with what
    rediff.Optimize writes - [Content := list byte], [RSeries := list op] (the SyncOps of one
    file), [BSeries := list Scan.ctrl] (the Controls bsdiff.DiffContext.Do emits, eof control
    included), [render] = the frames: SyncHeader, (BsdiffHeader, Controls | SyncOps), end
    marker - and applied by the C01 patcher model (Patch/Patcher.v).  [den_rsync] is C01's
    [replay], [den_bsdiff] is C12's [apply_series] on series a Go Control list can hold. *)
From Wharf Require Import Bowl.Fresh Patch.Reinterp Patch.Stream Patch.Patcher Patch.PatcherProofs
     Compose.OptimizeApply Compose.OptimizeApplyProofs.
From Wharf Require Bsdiff.Scan Bsdiff.ScanProofs Bsdiff.Patch Bsdiff.RoundtripProofs Exec.C12.

(** Bridge between the two models of bsdiff Apply (C12's [apply_series], C01's [process_bsdiff] /
    [ctrl_loop] / [bs_apply]): on the frames Optimize writes for a mapped file - BsdiffHeader{t},
    the controls, the end marker - the patcher opens old file [t], writes exactly
    [den_bsdiff b old_t] through the entry writer of new file [idx], accepts the sentinel, passes
    the final size check, leaves the remaining frames, and touches no other path. *)
Theorem bsdiff_series_applied_by_patcher :
  forall (oldC newC : container) (olds : list (list byte)) (idx : Z) (p : path) (data : list byte)
         (t : Z) (pt : path) (szt : Z) (oldt : list byte) (b : bseries) (rest : list pmsg) (s : pst),
    znth (c_files newC) idx = Some (p, Z.of_nat (length data)) ->
    znth (c_files oldC) t = Some (pt, szt) -> t < 2^63 ->
    znth olds t = Some oldt ->
    file_ready (p_tree s) p -> tlookup (p_tree s) p = Some (File (zeros (length data))) ->
    den_bsdiff b oldt = Some data ->
    exists s', process_bsdiff oldC newC olds idx (MBH (mkBH t) :: map ctrl_msg b ++ hey_msg :: rest) s = Ok (rest, s') /\
      tlookup (p_tree s') p = Some (File data) /\
      (forall q, q <> p -> tlookup (p_tree s') q = tlookup (p_tree s) q).
Proof. exact process_bsdiff_realized. Qed.
Print Assumptions bsdiff_series_applied_by_patcher.

(** C07's hypothesis [bsdiff_roundtrip] holds of the instance, by C12's [bsdiff_roundtrip]: for
    every scan block size, partition count and search oracle within range, and ALL contents. *)
Theorem bsdiff_roundtrip_instance :
  forall (bsz : Z) (search : list byte -> N -> list byte -> Z * Z) (partitions : Z),
    0 < bsz -> 0 <= partitions ->
    (forall old bi, ScanProofs.search_in_range (Scan.len old) (search old bi)) ->
    forall old new, den_bsdiff (bsd_series bsz search partitions old new) old = Some new.
Proof. exact bsd_series_roundtrip. Qed.
Print Assumptions bsdiff_roundtrip_instance.

(** ... and on byte strings (of a length a Go slice can have) the instance IS the output of the
    C12 model of bsdiff.DiffContext.Do, which does not fail. *)
Theorem bsdiff_instance_is_go :
  forall (bsz : Z) (search : list byte -> N -> list byte -> Z * Z) (partitions : Z),
    0 < bsz -> 0 <= partitions ->
    (forall old bi, ScanProofs.search_in_range (Scan.len old) (search old bi)) ->
    forall old new,
      RoundtripProofs.bytes_ok old -> RoundtripProofs.bytes_ok new -> Scan.len old < 2^63 ->
      Scan.bsdiff_do bsz (search old) partitions old new = Scan.Ok (bsd_series bsz search partitions old new).
Proof. exact bsd_series_is_go. Qed.
Print Assumptions bsdiff_instance_is_go.

(** C07's hypotheses [original_correct] / [file_valid] hold of every file of the patch
    WritePatch emits, from what C01 assumes of the differ ([diff_ok], proved of the real differ
    by C11); that the patcher's [relay] then writes that file is C01's [process_series_ok],
    used in the theorems below. *)
Theorem original_series_valid :
  forall (bs : Z) (differ : Z -> list byte -> list op) (old : build),
    diff_ok bs (contents_of old) differ ->
    forall (f : path * list byte) (ord : list (Z * Z)),
      order_ok bs (tsizes_of (container_of old)) (file_in_of differ (container_of old) f ord) ->
      file_valid (den_rsync bs) bs (tsizes_of (container_of old)) (contents_of old) (file_in_of differ (container_of old) f ord).
Proof. exact file_valid_instance. Qed.
Print Assumptions original_series_valid.

(** Pass 2 with no abstract series left: for every old build, well-formed new build, differ
    output satisfying [diff_ok], and ANY choice of mappings whose old-file indices exist,
    [optimize] returns a series list; it is what the Go code writes (original ops, or the
    controls bsdiff.Do returned for (mapped old file, new file)); and the C01 patcher applied to
    the optimized message list in an empty directory succeeds, touches every file and produces
    exactly the new build. *)
Theorem optimize_any_mapping_instantiated :
  forall (bs : Z) (differ : Z -> list byte -> list op) (old new : build)
         (bsz : Z) (search : list byte -> N -> list byte -> Z * Z) (partitions : Z),
    0 < bs -> wf_build new -> fits63 old -> fits63 new -> diff_ok bs (contents_of old) differ ->
    build_bytes old -> build_bytes new ->
    0 < bsz -> 0 <= partitions ->
    (forall o bi, ScanProofs.search_in_range (Scan.len o) (search o bi)) ->
  forall (xs : list (rseries * list byte * option (Z * Z))) (algo quality : Z),
    map fst xs = originals differ old new ->
    Forall (mapping_in_range (contents_of old)) xs ->
    exists opt t touched trace,
      optimize (bsd_series bsz search partitions) (contents_of old) xs = Some opt /\
      Forall2 (written_by_go bsz search partitions (contents_of old)) xs opt /\
      apply_patch_fresh bs (contents_of old) None (optimized_patch algo quality old new opt) = Ok (t, touched, trace) /\
      touched = Z.of_nat (length (files_of new)) /\
      forall p, tlookup t p = tlookup new p.
Proof. exact optimize_any_mapping_lemma. Qed.
Print Assumptions optimize_any_mapping_instantiated.

(** Both passes: for every old build, well-formed new build, differ output satisfying [diff_ok],
    every ForceMapAll / size limit, every iteration order of every reused-bytes map, every
    bsdiff setting (scan block size, partitions, search oracle within range): the analysis
    yields mappings, the patch rewritten with them is what the Go code writes, and applying the
    optimized message list with the C01 patcher model to an empty directory yields the same tree
    as applying the original one - the new build at every path. *)
Theorem optimize_preserves_instantiated :
  forall (bs : Z) (differ : Z -> list byte -> list op) (old new : build)
         (bsz : Z) (search : list byte -> N -> list byte -> Z * Z) (partitions : Z),
    0 < bs -> wf_build new -> fits63 old -> fits63 new -> diff_ok bs (contents_of old) differ ->
    build_bytes old -> build_bytes new ->
    0 < bsz -> 0 <= partitions ->
    (forall o bi, ScanProofs.search_in_range (Scan.len o) (search o bi)) ->
  forall (force : bool) (limit : Z) (ords : list (list (Z * Z))) (algo quality algo' quality' : Z),
    length ords = length (files_of new) ->
    Forall (order_ok bs (tsizes_of (container_of old))) (file_ins differ old new ords) ->
    exists xs opt t touched trace,
      analyze_all bs force limit (tsizes_of (container_of old)) (file_ins differ old new ords) = Some xs /\
      optimize (bsd_series bsz search partitions) (contents_of old) xs = Some opt /\
      Forall2 (written_by_go bsz search partitions (contents_of old)) xs opt /\
      apply_patch_fresh bs (contents_of old) None (optimized_patch algo' quality' old new opt) = Ok (t, touched, trace) /\
      touched = Z.of_nat (length (files_of new)) /\
      (forall p, tlookup t p = tlookup new p) /\
      exists t0 touched0 trace0,
        apply_patch_fresh bs (contents_of old) None (write_patch differ algo quality old new) = Ok (t0, touched0, trace0) /\
        forall p, tlookup t p = tlookup t0 p.
Proof. exact optimize_preserves_instantiated_lemma. Qed.
Print Assumptions optimize_preserves_instantiated.

(** The same with the executable search of the C12 correspondence (Exec/C12.v [run_bsd]: naive
    partitioned suffix array + the code's binary search, 128 KiB scan blocks), which C12 proves
    within range: no hypothesis about any series or oracle is left. *)
Theorem optimize_preserves_instantiated_psa :
  forall (bs : Z) (differ : Z -> list byte -> list op) (old new : build) (partitions : Z),
    0 < bs -> wf_build new -> fits63 old -> fits63 new -> diff_ok bs (contents_of old) differ ->
    build_bytes old -> build_bytes new -> 0 <= partitions ->
  forall (force : bool) (limit : Z) (ords : list (list (Z * Z))) (algo quality algo' quality' : Z),
    length ords = length (files_of new) ->
    Forall (order_ok bs (tsizes_of (container_of old))) (file_ins differ old new ords) ->
    exists xs opt t touched trace,
      analyze_all bs force limit (tsizes_of (container_of old)) (file_ins differ old new ords) = Some xs /\
      optimize (bsd_series C12.GO_BLOCK (psa_oracle partitions) partitions) (contents_of old) xs = Some opt /\
      Forall2 (written_by_go C12.GO_BLOCK (psa_oracle partitions) partitions (contents_of old)) xs opt /\
      apply_patch_fresh bs (contents_of old) None (optimized_patch algo' quality' old new opt) = Ok (t, touched, trace) /\
      touched = Z.of_nat (length (files_of new)) /\
      (forall p, tlookup t p = tlookup new p) /\
      exists t0 touched0 trace0,
        apply_patch_fresh bs (contents_of old) None (write_patch differ algo quality old new) = Ok (t0, touched0, trace0) /\
        forall p, tlookup t p = tlookup t0 p.
Proof. exact optimize_preserves_instantiated_psa_lemma. Qed.
Print Assumptions optimize_preserves_instantiated_psa.

(** non-vacuity, by computation, on a tiny pair (block size 4): new file 0 is mapped to old file
    0 and rewritten as the bsdiff series [run_bsd] computes, new file 1 keeps its full-file block
    range; the optimized frames are the ones listed; the patcher model applied to the optimized
    and to the original patch touches 2 files and both trees equal the new build *)
Example optimize_apply_example :
  analyze_all 4 false 1000 (tsizes_of (container_of ex_old)) (file_ins ex_differ ex_old ex_new ex_ords) = Some ex_xs /\
  C12.run_bsd 0 [1;2;3;4;5;6;7;8]%N [1;2;3;4;0;6;7;8;9]%N = Scan.Ok ex_ctrls /\
  optimize (bsd_series C12.GO_BLOCK (psa_oracle 0) 0) (contents_of ex_old) ex_xs = Some ex_opt /\
  render_all 0 ex_opt =
    [MSH (mkSH SH_BSDIFF 0); MBH (mkBH 0);
     MCT (mkCT [0;0;0;0;251;0;0;0]%N [9]%N 0 false); MCT (mkCT [] [] 0 true); hey_msg;
     MSH (mkSH SH_RSYNC 1); MSO (mkSO T_BLOCK_RANGE 1 0 1 []); hey_msg] /\
  match apply_patch_fresh 4 (contents_of ex_old) None (optimized_patch 0 0 ex_old ex_new ex_opt),
        apply_patch_fresh 4 (contents_of ex_old) None (write_patch ex_differ 0 0 ex_old ex_new) with
  | Ok (t1, n1, tr1), Ok (t0, n0, tr0) =>
      n1 = 2 /\ n0 = 2 /\
      map (tlookup t1) [[1%N]; [2%N]; [3%N]] = map (tlookup ex_new) [[1%N]; [2%N]; [3%N]] /\
      map (tlookup t0) [[1%N]; [2%N]; [3%N]] = map (tlookup ex_new) [[1%N]; [2%N]; [3%N]] /\
      tr1 = [EvRead 0; EvWriter 0; EvTranspose 1 1; EvRead 1]
  | _, _ => False
  end.
Proof. vm_compute. repeat split; reflexivity. Qed.
