(** C07 - optimizing a patch never changes what it produces.
    Only statements, [exact], and [Print Assumptions]; the model is Patch/Rediff.v (with
    Val/VPool.v for ComputeBlockSize), the proofs are in Patch/RediffProofs.v.

    The analysis pass iterates a Go map; the model takes the iteration order [ord] as an
    argument and the theorems hold for every permutation [ord] of the reused-bytes map.  The
    series themselves are abstract: [den_rsync] / [den_bsdiff] give the result of applying an
    rsync series to the old build / a bsdiff series to one old file, [bsdiff_do] is the
    scanner; that the series it computes reproduces the new file is the hypothesis
    [bsdiff_roundtrip] (property C12), that the original series of each new file reproduces
    it is [original_correct] (C01/C11).  The optimizer's own crashes on tiny files are the two
    bsdiff defects reported as known findings; they live below [bsdiff_do]. *)
From Wharf Require Import Base.Prelude Val.Drip Val.VPool Patch.Rediff Patch.RediffProofs.
From Coq Require Import Permutation.
Local Open Scope Z_scope.

(** Whatever the order in which the map is visited, the selection loop ends on an entry that
    has the largest reused-bytes figure, and on a same-path entry whenever one of those has
    the largest figure; with no entries it selects nothing. *)
Theorem select_any_order :
  forall (same : Z -> bool) (m ord : list (Z * Z)), Permutation ord m ->
    match select same ord with
    | None => m = []
    | Some e => In e m /\ (forall x, In x m -> snd x <= snd e) /\
                ((exists x, In x m /\ snd x = snd e /\ same (fst x) = true) -> same (fst e) = true)
    end.
Proof. exact select_any_order_lemma. Qed.
Print Assumptions select_any_order.

(** The mapping chosen for a new file (block size, ForceMapAll, size limit, old sizes, map
    order all arbitrary): the old file index is in range, neither file exceeds the size limit,
    and the old file is a choice of the rule above - or, when no block of any old file is
    reused, the non-empty old file of the same path. *)
Theorem analyze_choice_sound :
  forall (bs : Z) (force : bool) (limit : Z) (tsizes : list Z)
         (ssize : Z) (sp : option Z) (ops : list sop) (ord m : list (Z * Z)) (i b : Z),
    reused bs tsizes ops = Some m -> Permutation ord m ->
    (forall k, sp = Some k -> in_range tsizes k) ->
    analyze_file bs force limit tsizes ssize sp ops ord = Some (Some (i, b)) ->
    in_range tsizes i /\ ssize <= limit /\ tsize tsizes i <= limit /\
    ((m <> [] /\ is_choice (same_of sp) m (i, b)) \/
     (m = [] /\ sp = Some i /\ b = 0 /\ 0 < tsize tsizes i)).
Proof. exact analyze_choice_sound_lemma. Qed.
Print Assumptions analyze_choice_sound.

(** the analysis does not panic on a patch whose block ranges name existing old files *)
Theorem analyze_total :
  forall (bs : Z) (force : bool) (limit : Z) (tsizes : list Z)
         (ssize : Z) (sp : option Z) (ops : list sop) (ord m : list (Z * Z)),
    reused bs tsizes ops = Some m -> analyze_file bs force limit tsizes ssize sp ops ord <> None.
Proof. exact analyze_file_total. Qed.
Print Assumptions analyze_total.

(** the order-free description used by the correspondence check covers every order *)
Theorem analyze_allowed_complete :
  forall (bs : Z) (force : bool) (limit : Z) (tsizes : list Z)
         (ssize : Z) (sp : option Z) (ops : list sop) (ord m : list (Z * Z)) (r : option (Z * Z)),
    reused bs tsizes ops = Some m -> Permutation ord m ->
    analyze_file bs force limit tsizes ssize sp ops ord = Some r ->
    exists l, analyze_allowed bs force limit tsizes ssize sp ops = Some l /\ In r l.
Proof. exact analyze_in_allowed. Qed.
Print Assumptions analyze_allowed_complete.

(** The second pass: with every mapped index in range, the optimized patch exists and, file by
    file, applies to the old build with the result of the original patch, i.e. the new build. *)
Theorem optimize_preserves :
  forall (Content RSeries BSeries : Type)
         (den_rsync : RSeries -> list Content -> option Content)
         (den_bsdiff : BSeries -> Content -> option Content)
         (bsdiff_do : Content -> Content -> BSeries),
    (forall old new, den_bsdiff (bsdiff_do old new) old = Some new) ->
  forall (olds : list Content) (xs : list (RSeries * Content * option (Z * Z))),
    Forall (mapping_in_range olds) xs -> Forall (original_correct den_rsync olds) xs ->
    exists opt, optimize bsdiff_do olds xs = Some opt /\
                apply_patch den_rsync den_bsdiff olds opt = apply_patch den_rsync den_bsdiff olds (map (fun x => Rsync (fst (fst x))) xs) /\
                apply_patch den_rsync den_bsdiff olds opt = map (fun x => Some (snd (fst x))) xs.
Proof. exact (@optimize_preserves_lemma). Qed.
Print Assumptions optimize_preserves.

(** Both passes: for every parameter setting and every iteration order of every map, the
    analysis yields mappings and the patch rewritten with them produces the new build. *)
Theorem rediff_preserves :
  forall (Content RSeries BSeries : Type)
         (den_rsync : RSeries -> list Content -> option Content)
         (den_bsdiff : BSeries -> Content -> option Content)
         (bsdiff_do : Content -> Content -> BSeries),
    (forall old new, den_bsdiff (bsdiff_do old new) old = Some new) ->
  forall (bs : Z) (force : bool) (limit : Z) (tsizes : list Z) (olds : list Content),
    length olds = length tsizes ->
  forall fs : list (@file_in Content RSeries),
    Forall (file_valid den_rsync bs tsizes olds) fs ->
    exists xs opt,
      analyze_all bs force limit tsizes fs = Some xs /\ optimize bsdiff_do olds xs = Some opt /\
      apply_patch den_rsync den_bsdiff olds opt = map (fun f : @file_in Content RSeries => Some (snd f)) fs.
Proof. exact (@rediff_preserves_lemma). Qed.
Print Assumptions rediff_preserves.

(** non-vacuity and the arithmetic of the code: a 100-byte old file copied whole counts for
    65635 "reused bytes" (64 KiB * 1 - 1 + 100); two old files tie at 131071 for a new file
    that takes one block of each, and the one with the new file's path wins whatever the order *)
Example analyze_example :
  analyze_file 65536 true 4294967296 [100] 100 (Some 0) [SRange 0 0 1] [(0, 65635)] = Some (Some (0, 65635)) /\
  reused 65536 [200000; 200000] [SRange 0 0 1; SData 7; SRange 1 0 1] = Some [(0, 131071); (1, 131071)] /\
  analyze_file 65536 false 4294967296 [200000; 200000] 131079 (Some 1) [SRange 0 0 1; SData 7; SRange 1 0 1] [(0, 131071); (1, 131071)] = Some (Some (1, 131071)) /\
  analyze_file 65536 false 4294967296 [200000; 200000] 131079 (Some 1) [SRange 0 0 1; SData 7; SRange 1 0 1] [(1, 131071); (0, 131071)] = Some (Some (1, 131071)) /\
  analyze_allowed 65536 false 4294967296 [200000; 200000] 131079 None [SRange 0 0 1; SData 7; SRange 1 0 1] = Some [Some (0, 131071); Some (1, 131071)].
Proof. vm_compute. repeat split; reflexivity. Qed.
