(** C16 — validation always terminates and a clean verdict is never caused by interruption.
    Only statements, [exact], and [Print Assumptions]; the model (goroutines of
    pwr.ValidatorContext.Validate, the per-file wound relay, the wounds consumers, the channels)
    is Heal/Protocol.v, the proofs are Heal/ProtocolProofs.v and Heal/ProtocolSafety.v.

    A run is [run p acts (init p)]: [p] fixes the channel capacity, what the dir/symlink pass
    finds, whether the worker's pool can be opened, what each file yields (whole-file wound,
    block markers before / after the size check, size wound, I/O error), the consumer (an
    arbitrary automaton) and whether ctx is cancelled before the call; [acts] is the schedule:
    which goroutine moves, which ready select branch it takes, and when the environment
    cancels ctx ([ACancel], at any position). *)
From Coq Require Import List Arith Bool.
Import ListNotations.
From Wharf Require Import Heal.Protocol Heal.ProtocolProofs Heal.ProtocolSafety Heal.ProtocolClean.

(** Validation returns: every execution has at most [measure (init p)] steps (so every maximal
    execution is finite), and a reachable state in which Validate has not returned always has
    an enabled goroutine step (no deadlock) - whatever the number of wounds, the consumer, the
    cancellation instant, the directory state, the interleaving. *)
Theorem validate_terminates :
  forall (p : params) (acts : list action) (s : state),
    1 <= p_cap p -> p_closefail p = false -> run p acts (init p) = Some s ->
    length acts <= measure (init p) /\
    (s_main s = MRet \/ exists a s', a <> ACancel /\ step p a s = Some s').
Proof. exact validate_terminates_lemma. Qed.
Print Assumptions validate_terminates.

(** The guard [p_closefail p = false] cannot be dropped.  By reading pwr/validator.go: when
    targetPool.Close() fails in the deferred function of vctx.validate, the function returns
    without sending on workerErrs; Validate then blocks forever on <-workerErrs.  The model
    reaches a state with main waiting and no goroutine step enabled (clean one-file directory,
    nothing cancelled, a consumer that never fails).  Not reproducible on the implementation
    through its public API (the fspool over regular files does not fail to close). *)
Theorem validate_blocks_when_close_fails_refuted :
  exists s, run closefail_params closefail_sched (init closefail_params) = Some s /\
            s_main s = MWaitW /\ forall a, step closefail_params a s = None \/ a = ACancel.
Proof. exact validate_blocks_when_close_fails_lemma. Qed.
Print Assumptions validate_blocks_when_close_fails_refuted.

(** the potential function behind it: every step (of any goroutine, and the cancellation)
    strictly decreases [measure], in every state *)
Theorem every_step_decreases_measure :
  forall p a s s', step p a s = Some s' -> measure s' < measure s.
Proof. exact step_decreases. Qed.
Print Assumptions every_step_decreases_measure.

(** no reachable stuck state, stated on the invariant *)
Theorem no_reachable_deadlock :
  forall p s, 1 <= p_cap p -> Inv s -> s_main s <> MRet -> exists a s', a <> ACancel /\ step p a s = Some s'.
  (* [Inv] is preserved by every step when p_closefail p = false: ProtocolProofs.inv_step *)
Proof. exact no_stuck. Qed.
Print Assumptions no_reachable_deadlock.

(** Fail-fast validation (the guardian as repaired in pwr/wounds.go) returning nil implies that
    the directory is clean: the dir/symlink pass found nothing and every file yields healthy
    markers only - for every schedule and cancellation instant. *)
Theorem no_false_valid :
  forall (p : params) (acts : list action) (s : state),
    p_cons p = guardian -> p_closefail p = false -> run p acts (init p) = Some s ->
    s_main s = MRet -> s_ret s = RNil -> clean p = true.
Proof. exact no_false_valid_lemma. Qed.
Print Assumptions no_false_valid.

(** The unchanged tree (WoundsGuardian.Do returns nil on ctx.Done()) violates it: context
    cancelled before the call, one missing file, Validate returns nil ... *)
Theorem no_false_valid_unfixed_refuted :
  exists p acts s, p_cons p = guardian_unfixed /\ run p acts (init p) = Some s /\
                   s_main s = MRet /\ s_ret s = RNil /\ clean p = false.
Proof. exact no_false_valid_unfixed_refuted_lemma. Qed.
Print Assumptions no_false_valid_unfixed_refuted.

(** ... and so does a cancellation in the middle of the run (two files, the second missing,
    ctx cancelled while the first is being validated). *)
Theorem no_false_valid_unfixed_mid_refuted :
  exists s, run witness_mid witness_mid_sched (init witness_mid) = Some s /\
            s_main s = MRet /\ s_ret s = RNil /\ clean witness_mid = false.
Proof. exact no_false_valid_unfixed_mid_refuted_lemma. Qed.
Print Assumptions no_false_valid_unfixed_mid_refuted.

(** The converse direction, for the correspondence's outcome sets: a clean directory validated
    fail-fast with a context that is never cancelled (worker pool opens and closes) returns
    nil under every schedule - errors on a valid directory need an interruption. *)
Theorem clean_uninterrupted_nil :
  forall (p : params) (acts : list action) (s : state),
    p_cons p = guardian -> p_closefail p = false -> p_startfail p = false -> p_ctx0 p = false ->
    clean p = true -> ~ In ACancel acts ->
    run p acts (init p) = Some s -> s_main s = MRet -> s_ret s = RNil.
Proof. exact clean_uninterrupted_nil_lemma. Qed.
Print Assumptions clean_uninterrupted_nil.

(** non-vacuity: a damaged directory (3 dir wounds with a channel of capacity 1, a file with a
    bad block) validated fail-fast under a concrete schedule reaches MRet with an error, and a
    clean one reaches MRet with nil *)
Example damaged_run_returns_error :
  exists acts s, run (mkparams 1 [PWound; PWound; PWound] false [FData [FBad false false] FMNone []] guardian false false) acts
                     (init (mkparams 1 [PWound; PWound; PWound] false [FData [FBad false false] FMNone []] guardian false false)) = Some s
                 /\ s_main s = MRet /\ s_ret s = RErr.
Proof.
  exists [ACons; AMain; ACons; ACons; AMain; ACons; AMain; ACons; AMain; AMainC; AMain; AMain; AMain; AWk; AWk; AWk; AWk; AMain; AMain; AMain].
  eexists. split; [vm_compute; reflexivity|]. split; reflexivity.
Qed.

Example clean_run_returns_nil :
  exists acts s, run (mkparams 1 [] false [FData [FHealthy] FMNone []] guardian false false) acts
                     (init (mkparams 1 [] false [FData [FHealthy] FMNone []] guardian false false)) = Some s
                 /\ s_main s = MRet /\ s_ret s = RNil /\ clean (mkparams 1 [] false [FData [FHealthy] FMNone []] guardian false false) = true.
Proof.
  exists [ACons; AMain; AWk; AMainF; AWA; AAR; ARel; ACons; AWk; AWk; AWk; AWk; AAgg; ARel; ARW; AMain; AMain; AWk; AWk; AWk; AMain; AMain; ACons; ACons; AMain].
  eexists. split; [vm_compute; reflexivity|]. repeat split.
Qed.
