(** C16 — validation always terminates and a clean verdict is never caused by interruption.
    Only statements, [exact], and [Print Assumptions]; the model (goroutines of
    pwr.ValidatorContext.Validate, the per-file wound relay, the wounds consumers, the channels)
    is Heal/Protocol.v, the proofs are Heal/ProtocolProofs.v and Heal/ProtocolSafety.v.

    A run is [run p acts (init p)]: [p] fixes the channel capacity, what the dir/symlink pass
    finds, whether the worker's pool can be opened, what each file yields (whole-file wound,
    block markers before / after the size check, size wound, I/O error), the consumer (an
    arbitrary automaton) and whether ctx is cancelled before the call; [acts] is the schedule:
    which goroutine moves, which ready select branch it takes, and when the environment
    cancels ctx ([ACancel], at any position). *)
From Coq Require Import List Arith Bool.
Import ListNotations.
From Wharf Require Import Heal.Protocol Heal.ProtocolProofs Heal.ProtocolSafety Heal.ProtocolClean.

(** Validation returns: every execution has at most [measure (init p)] steps (so every maximal
    execution is finite), and a reachable state in which Validate has not returned always has
    an enabled goroutine step (no deadlock) - whatever the number of wounds, the consumer, the
    cancellation instant, the directory state, the interleaving. *)
Theorem validate_terminates :
  forall (p : params) (acts : list action) (s : state),
    1 <= p_cap p -> p_closefail p = false -> run p acts (init p) = Some s ->
    length acts <= measure (init p) /\
    (s_main s = MRet \/ exists a s', a <> ACancel /\ step p a s = Some s').
Proof. exact validate_terminates_lemma. Qed.
Print Assumptions validate_terminates.

(** The guard [p_closefail p = false] cannot be dropped.  By reading pwr/validator.go: when
    targetPool.Close() fails in the deferred function of vctx.validate, the function returns
    without sending on workerErrs; Validate then blocks forever on <-workerErrs.  The model
    reaches a state with main waiting and no goroutine step enabled (clean one-file directory,
    nothing cancelled, a consumer that never fails).  Not reproducible on the implementation
    through its public API (the fspool over regular files does not fail to close). *)
Theorem validate_blocks_when_close_fails_refuted :
  exists s, run closefail_params closefail_sched (init closefail_params) = Some s /\
            s_main s = MWaitW /\ forall a, step closefail_params a s = None \/ a = ACancel.
Proof. exact validate_blocks_when_close_fails_lemma. Qed.
Print Assumptions validate_blocks_when_close_fails_refuted.

(** the potential function behind it: every step (of any goroutine, and the cancellation)
    strictly decreases [measure], in every state *)
Theorem every_step_decreases_measure :
  forall p a s s', step p a s = Some s' -> measure s' < measure s.
Proof. exact step_decreases. Qed.
Print Assumptions every_step_decreases_measure.

(** no reachable stuck state, stated on the invariant *)
Theorem no_reachable_deadlock :
  forall p s, 1 <= p_cap p -> Inv s -> s_main s <> MRet -> exists a s', a <> ACancel /\ step p a s = Some s'.
  (* [Inv] is preserved by every step when p_closefail p = false: ProtocolProofs.inv_step *)
Proof. exact no_stuck. Qed.
Print Assumptions no_reachable_deadlock.

(** Fail-fast validation (the guardian as repaired in pwr/wounds.go) returning nil implies that
    the directory is clean: the dir/symlink pass found nothing and every file yields healthy
    markers only - for every schedule and cancellation instant. *)
Theorem no_false_valid :
  forall (p : params) (acts : list action) (s : state),
    p_cons p = guardian -> p_closefail p = false -> run p acts (init p) = Some s ->
    s_main s = MRet -> s_ret s = RNil -> clean p = true.
Proof. exact no_false_valid_lemma. Qed.
Print Assumptions no_false_valid.

(** The unchanged tree (WoundsGuardian.Do returns nil on ctx.Done()) violates it: context
    cancelled before the call, one missing file, Validate returns nil ... *)
Theorem no_false_valid_unfixed_refuted :
  exists p acts s, p_cons p = guardian_unfixed /\ run p acts (init p) = Some s /\
                   s_main s = MRet /\ s_ret s = RNil /\ clean p = false.
Proof. exact no_false_valid_unfixed_refuted_lemma. Qed.
Print Assumptions no_false_valid_unfixed_refuted.

(** ... and so does a cancellation in the middle of the run (two files, the second missing,
    ctx cancelled while the first is being validated). *)
Theorem no_false_valid_unfixed_mid_refuted :
  exists s, run witness_mid witness_mid_sched (init witness_mid) = Some s /\
            s_main s = MRet /\ s_ret s = RNil /\ clean witness_mid = false.
Proof. exact no_false_valid_unfixed_mid_refuted_lemma. Qed.
Print Assumptions no_false_valid_unfixed_mid_refuted.

(** The converse direction, for the correspondence's outcome sets: a clean directory validated
    fail-fast with a context that is never cancelled (worker pool opens and closes) returns
    nil under every schedule - errors on a valid directory need an interruption. *)
Theorem clean_uninterrupted_nil :
  forall (p : params) (acts : list action) (s : state),
    p_cons p = guardian -> p_closefail p = false -> p_startfail p = false -> p_ctx0 p = false ->
    clean p = true -> ~ In ACancel acts ->
    run p acts (init p) = Some s -> s_main s = MRet -> s_ret s = RNil.
Proof. exact clean_uninterrupted_nil_lemma. Qed.
Print Assumptions clean_uninterrupted_nil.

(** non-vacuity: a damaged directory (3 dir wounds with a channel of capacity 1, a file with a
    bad block) validated fail-fast under a concrete schedule reaches MRet with an error, and a
    clean one reaches MRet with nil *)
Example damaged_run_returns_error :
  exists acts s, run (mkparams 1 [PWound; PWound; PWound] false [FData [FBad false false] FMNone []] guardian false false) acts
                     (init (mkparams 1 [PWound; PWound; PWound] false [FData [FBad false false] FMNone []] guardian false false)) = Some s
                 /\ s_main s = MRet /\ s_ret s = RErr.
Proof.
  exists [ACons; AMain; ACons; ACons; AMain; ACons; AMain; ACons; AMain; AMainC; AMain; AMain; AMain; AWk; AWk; AWk; AWk; AMain; AMain; AMain].
  eexists. split; [vm_compute; reflexivity|]. split; reflexivity.
Qed.

Example clean_run_returns_nil :
  exists acts s, run (mkparams 1 [] false [FData [FHealthy] FMNone []] guardian false false) acts
                     (init (mkparams 1 [] false [FData [FHealthy] FMNone []] guardian false false)) = Some s
                 /\ s_main s = MRet /\ s_ret s = RNil /\ clean (mkparams 1 [] false [FData [FHealthy] FMNone []] guardian false false) = true.
Proof.
  exists [ACons; AMain; AWk; AMainF; AWA; AAR; ARel; ACons; AWk; AWk; AWk; AWk; AAgg; ARel; ARW; AMain; AMain; AWk; AWk; AWk; AMain; AMain; ACons; ACons; AMain].
  eexists. split; [vm_compute; reflexivity|]. repeat split.
Qed.

(** ------------------------------------------------------------------------------------------
    C16 composed with C05 (Compose/ValidateProtocol.v, Compose/ValidateProtocolProofs.v).

    Above, WHAT the passes of Validate find is a parameter ([p_pre], [p_files]).  [params_of]
    builds these parameters from the inputs of C05's validator model (Val/FileVal.v): the
    observation of the actual directory at every signed entry ([ds ls fs]), the block size
    [bs], MaxWoundSize, the block hash; plus the channel capacity [cap], whether pools.New
    fails in the worker, whether targetPool.Close fails, whether ctx is cancelled before the
    call.  The consumer is the repaired guardian.  Unscaled: one [PWound] per deviating
    directory / symlink ([PErr] at an Lstat / Readlink error), per file the raw marker of every
    block (complete blocks before the size check, the short last block after it) with the
    merge decisions AggregateWounds takes on it, [FMShort] for a size mismatch, [FWhole] for an
    entry that is not a regular file or lies below a wounded directory. *)
From Wharf Require Import Base.Prelude Val.Drip Val.VPool Val.FileVal Val.FileValProofs.
From Wharf Require Import Compose.ValidateProtocol Compose.ValidateProtocolProofs.

(** [clean] of the protocol parameters is C05's "validation succeeds and reports nothing" *)
Theorem clean_params_iff_no_report :
  forall (H : Type) (bs : Z), (0 < bs)%Z -> forall (maxWound : Z) (hash : list N -> H) (heqb : H -> H -> bool)
         (cap : nat) (startfail closefail ctx0 : bool) ds ls fs,
    clean (params_of bs maxWound hash heqb cap startfail closefail ctx0 ds ls fs) = true <->
    exists ws, validate bs maxWound hash heqb ds ls fs = Some ws /\ reported ws = [].
Proof. exact (@clean_params_iff_no_report_lemma). Qed.
Print Assumptions clean_params_iff_no_report.

(** End to end ([no_false_valid] o C05's [never_false_valid]): for every schedule of the
    goroutines, every select choice and every cancellation instant ([ctx0], [ACancel] anywhere
    in [acts]), whatever the channel capacity and whether or not the worker's pool opens: if
    fail-fast Validate returns nil then every signed directory is a directory, every symlink
    has the signed destination and every file is a regular file with exactly the signed
    content.  Hypotheses: 0 < bs, the strong hash is injective on the blocks compared, the
    worker's targetPool.Close() does not fail (the [false] argument of [params_of]). *)
Theorem failfast_nil_means_directory_matches :
  forall (H : Type) (bs : Z), (0 < bs)%Z -> forall (maxWound : Z) (hash : list N -> H) (heqb : H -> H -> bool),
    (forall a b, heqb (hash a) (hash b) = true -> a = b) ->
  forall ds ls fs (cap : nat) (startfail ctx0 : bool) (acts : list action) (s : state),
    let p := params_of bs maxWound hash heqb cap startfail false ctx0 ds ls fs in
    run p acts (init p) = Some s -> s_main s = MRet -> s_ret s = RNil ->
    Forall (fun p => snd p = ODir) ds /\
    Forall (fun x => let '(_, want, o) := x in o = OLink want) ls /\
    Forall (fun x => let '(_, signed, o) := x in o = OFile signed) fs.
Proof. exact (@failfast_nil_means_directory_matches_lemma). Qed.
Print Assumptions failfast_nil_means_directory_matches.

(** Conversely ([clean_uninterrupted_nil] o "a matching directory reports nothing"): a matching
    directory validated fail-fast with a context that is never cancelled (the worker's pool
    opens and closes) returns nil under every schedule.  [heqb h h = true] is bytes.Equal(x, x). *)
Theorem matching_directory_uninterrupted_nil :
  forall (H : Type) (bs : Z), (0 < bs)%Z -> forall (maxWound : Z) (hash : list N -> H) (heqb : H -> H -> bool),
    (forall h, heqb h h = true) ->
  forall ds ls fs (cap : nat) (acts : list action) (s : state),
    let p := params_of bs maxWound hash heqb cap false false false ds ls fs in
    (Forall (fun p => snd p = ODir) ds /\
     Forall (fun x => let '(_, want, o) := x in o = OLink want) ls /\
     Forall (fun x => let '(_, signed, o) := x in o = OFile signed) fs) ->
    ~ In ACancel acts ->
    run p acts (init p) = Some s -> s_main s = MRet -> s_ret s = RNil.
Proof. exact (@matching_directory_uninterrupted_nil_lemma). Qed.
Print Assumptions matching_directory_uninterrupted_nil.

(** the C05-side half of it: validation of a matching directory succeeds and reports nothing *)
Theorem matching_directory_reports_nothing :
  forall (H : Type) (bs : Z), (0 < bs)%Z -> forall (maxWound : Z) (hash : list N -> H) (heqb : H -> H -> bool),
    (forall h, heqb h h = true) ->
  forall ds ls fs,
    (Forall (fun p => snd p = ODir) ds /\
     Forall (fun x => let '(_, want, o) := x in o = OLink want) ls /\
     Forall (fun x => let '(_, signed, o) := x in o = OFile signed) fs) ->
    exists ws, validate bs maxWound hash heqb ds ls fs = Some ws /\ reported ws = [].
Proof. exact (@matching_reports_nothing). Qed.
Print Assumptions matching_directory_reports_nothing.

(** and the verdict is always reached: with a channel of capacity >= 1 every run on these
    parameters is bounded and never stuck before Validate returns ([validate_terminates]) *)
Theorem failfast_validate_returns :
  forall (H : Type) (bs maxWound : Z) (hash : list N -> H) (heqb : H -> H -> bool)
         ds ls fs (cap : nat) (startfail ctx0 : bool) (acts : list action) (s : state),
    let p := params_of bs maxWound hash heqb cap startfail false ctx0 ds ls fs in
    1 <= cap -> run p acts (init p) = Some s ->
    length acts <= measure (init p) /\
    (s_main s = MRet \/ exists a s', a <> ACancel /\ step p a s = Some s').
Proof. exact (@failfast_validate_returns_lemma). Qed.
Print Assumptions failfast_validate_returns.

(** [params_of] hands the protocol what the validator model sends.  Files: C16's aggregator
    ([agg_in] run sequentially = [agg_run]) fed the markers of [file_of] emits exactly the
    markers of C05's [file_wounds] (as Healthy / Bad, same order) - except that C05 lists the
    size wound LAST, whereas the worker sends it itself between the two groups of markers (and
    it may overtake what the aggregator and the relay still hold): C05's list is the multiset
    of what is sent for the file, not the channel order. *)
Theorem protocol_file_markers_are_validator_markers :
  forall (H : Type) (bs : Z), (0 < bs)%Z -> forall (maxWound : Z) (hash : list N -> H) (heqb : H -> H -> bool)
         (i : Z) (signed content : list N),
    match file_of bs maxWound hash heqb i signed (OFile content) with
    | FData ws1 mid ws2 =>
        map msg_of (file_wounds bs maxWound hash heqb i signed (OFile content))
        = agg_run false (ws1 ++ ws2) ++ match mid with FMShort => [Bad] | _ => [] end
    | _ => False
    end.
Proof. exact (@file_msgs_bridge). Qed.
Print Assumptions protocol_file_markers_are_validator_markers.

(** Pre-pass: one [PWound] per wound of C05's directory and symlink passes when both succeed,
    otherwise some wounds followed by the early return *)
Theorem protocol_prepass_is_validator_prepass :
  forall (H : Type) (bs maxWound : Z) (hash : list N -> H) (heqb : H -> H -> bool)
         (cap : nat) (startfail closefail ctx0 : bool) ds ls fs,
    match dirs_pass 0 ds, links_pass 0 ls with
    | Some wd, Some wl =>
        p_pre (params_core bs maxWound hash heqb cap startfail closefail ctx0 ds ls fs) = map (fun _ => PWound) (wd ++ wl)
    | _, _ =>
        exists n, p_pre (params_core bs maxWound hash heqb cap startfail closefail ctx0 ds ls fs) = repeat PWound n ++ [PErr]
    end.
Proof. exact (@params_core_pre_spec). Qed.
Print Assumptions protocol_prepass_is_validator_prepass.

(** a tiny build, bs = 4, block hash = the block itself: directory 0, directory 1 (a symlink on
    disk), symlink 0 -> 1, file 0 signed "1234|56" and "1294|5" on disk (block 0 flipped, one
    byte short: the marker of the short block is contiguous with the pending wound), file 1
    below the wounded directory 1 (hidden: whole-file wound although its bytes are the signed ones) *)
Example tiny_build_damaged_params :
  let p := params_of 4%Z 100%Z (fun b : list N => b) nlist_eqb 1 false false false
             [([], ODir); ([0], OLink 7%N)] [([0], 1%N, OLink 1%N)]
             [([0], [1;2;3;4;5;6]%N, OFile [1;2;9;4;5]%N); ([0; 1], [1;2;3]%N, OFile [1;2;3]%N)] in
  p_pre p = [PWound] /\
  p_files p = [FData [FBad false false] FMShort [FBad true false]; FWhole] /\
  clean p = false.
Proof. vm_compute. repeat split. Qed.

(** the same build undamaged: clean parameters, and a concrete schedule under which fail-fast
    Validate returns nil (the hypotheses of [failfast_nil_means_directory_matches] are satisfiable) *)
Example tiny_build_matching_run :
  let p := params_of 4%Z 100%Z (fun b : list N => b) nlist_eqb 1 false false false
             [([], ODir)] [([0], 1%N, OLink 1%N)] [([0], [1;2;3;4;5;6]%N, OFile [1;2;3;4;5;6]%N)] in
  p_pre p = [] /\ p_files p = [FData [FHealthy] FMNone [FHealthy]] /\ clean p = true /\
  exists acts s, run p acts (init p) = Some s /\ s_main s = MRet /\ s_ret s = RNil.
Proof.
  cbv zeta. split; [vm_compute; reflexivity|]. split; [vm_compute; reflexivity|]. split; [vm_compute; reflexivity|].
  exists [ACons; AMain; AWk; AMainF; AWA; AAR; ARel; ACons; AWk; AWk; AWA; AAR; ARel; ACons; AWk; AWk; AAgg; ARel; ARW;
          AMain; AMain; AWk; AWk; AWk; AMain; AMain; ACons; ACons; AMain].
  eexists. split; [vm_compute; reflexivity|]. split; reflexivity.
Qed.
