(** C18 — writing through a validating pool checks every block regardless of write sizes.
    Only statements, [exact], and [Print Assumptions]; the proofs are in Val/DripProofs.v and
    Val/VPoolProofs.v, the models in Val/Drip.v and Val/VPool.v. *)
From Wharf Require Import Base.Prelude Base.BlocksLemmas Val.Drip Val.DripProofs Val.VPool Val.VPoolProofs Val.DripAfterFail.

(** Whatever the slicing of the written bytes into Write calls, the drip writer hands the
    validator and then the inner writer exactly the blocks of the concatenation (the short
    last block at Close), validation permitting. *)
Theorem drip_chunking :
  forall (A St : Type) (bs : nat) (validate : St -> list A -> St * bool) (s0 : St) (ws : list (list A)),
    0 < bs -> (forall s b, snd (validate s b) = true) ->
    exists s', session bs validate s0 ws = (mkdw [] s' (blocks bs (concat ws)), Done, length ws).
Proof. exact (@drip_chunking_lemma). Qed.
Print Assumptions drip_chunking.

(** With an arbitrary (stateful, possibly rejecting) validator the whole session equals the
    reference semantics "validate then relay block after block, stop at the first rejection". *)
Theorem drip_session_is_blockwise :
  forall (A St : Type) (bs : nat), 0 < bs ->
  forall (validate : St -> list A -> St * bool) (s0 : St) (ws : list (list A)),
    match feed validate s0 [] (blocks bs (concat ws)) with
    | (s', sink', None) => session bs validate s0 ws = (mkdw [] s' sink', Done, length ws)
    | (s', sink', Some b) => exists k, session bs validate s0 ws = (mkdw b s' sink', Failed, k) /\ k <= length ws
    end.
Proof. exact (@session_spec). Qed.
Print Assumptions drip_session_is_blockwise.

Theorem slicing_independent :
  forall (A St : Type) (bs : nat), 0 < bs ->
  forall (validate : St -> list A -> St * bool) (s0 : St) (ws1 ws2 : list (list A)),
    concat ws1 = concat ws2 ->
    let '(w1, o1, _) := session bs validate s0 ws1 in
    let '(w2, o2, _) := session bs validate s0 ws2 in
    w1 = w2 /\ o1 = o2.
Proof. exact (@session_chunking_indep). Qed.
Print Assumptions slicing_independent.

(** Error mode: the call completing the first block that differs from the signed block at
    its position - or lies beyond the signed block count - fails, and exactly the blocks
    before it reached the inner pool; otherwise everything passes through unchanged. *)
Theorem error_mode :
  forall (A H : Type) (bs : Z), (0 < bs)%Z ->
  forall (hash : list A -> H) (heqb : H -> H -> bool) (group : list H) (ws : list (list A)),
    let wb := blocks (Z.to_nat bs) (concat ws) in
    match first_bad hash heqb group 0 wb with
    | None => vpool_error bs hash heqb group ws = (Done, length ws, wb)
    | Some j => exists k, vpool_error bs hash heqb group ws = (Failed, k, firstn j wb) /\ k <= length ws
    end.
Proof. exact (@error_mode_lemma). Qed.
Print Assumptions error_mode.

Theorem first_bad_is_first_rejected :
  forall (A H : Type) (hash : list A -> H) (heqb : H -> H -> bool) (group : list H) (bl : list (list A)) (i j : nat),
    first_bad hash heqb group i bl = Some j ->
    (forall k b, nth_error bl k = Some b -> i + k < j -> validate_as_error hash heqb group (i + k) b = true) /\
    (exists b, nth_error bl (j - i) = Some b /\ validate_as_error hash heqb group j b = false).
Proof. exact (@first_bad_spec). Qed.
Print Assumptions first_bad_is_first_rejected.

(** data whose every block is accepted at its position (e.g. the signed content or a
    block-aligned prefix of it) passes unchanged *)
Theorem equal_passes :
  forall (A H : Type) (bs : Z), (0 < bs)%Z ->
  forall (hash : list A -> H) (heqb : H -> H -> bool) (group : list H) (ws : list (list A)),
    (forall k b, nth_error (blocks (Z.to_nat bs) (concat ws)) k = Some b ->
                 validate_as_error hash heqb group k b = true) ->
    vpool_error bs hash heqb group ws = (Done, length ws, blocks (Z.to_nat bs) (concat ws)).
Proof. exact (@equal_passes_lemma). Qed.
Print Assumptions equal_passes.

(** Wound mode: one marker per written block, in block order, for any slicing. *)
Theorem wound_mode_markers :
  forall (A H : Type) (bs : Z), (0 < bs)%Z ->
  forall (hash : list A -> H) (heqb : H -> H -> bool) (fileIndex fileSize : Z) (group : list H) (ws : list (list A)),
    vpool_wounds bs hash heqb fileIndex fileSize group ws =
    wounds_from bs hash heqb fileIndex fileSize group 0 (blocks (Z.to_nat bs) (concat ws)).
Proof. exact (@wound_mode_list). Qed.
Print Assumptions wound_mode_markers.

(** ... and the marker of block j starts at j*bs, ends at min((j+1)*bs, signed size) while
    j is below the signed block count (so markers tile [0, signed size) without gaps, in
    offset order), and is healthy exactly when the block's hash equals the signed hash. *)
Theorem wound_mode_tiles :
  forall (A H : Type) (bs : Z), (0 < bs)%Z ->
  forall (hash : list A -> H) (heqb : H -> H -> bool) (fileIndex fileSize : Z) (group : list H),
    ((fileSize = 0%Z /\ group = []) \/
     (0 < fileSize /\ (Z.of_nat (length group) - 1) * bs < fileSize <= Z.of_nat (length group) * bs)%Z) ->
  forall (j : nat) (b : list A),
    let w := validate_as_wound bs hash heqb fileIndex fileSize group j b in
    widx w = fileIndex /\ wstart w = (Z.of_nat j * bs)%Z /\
    (j < length group -> wend w = Z.min ((Z.of_nat j + 1) * bs) fileSize) /\
    (wk w = WClosed <-> exists h, nth_error group j = Some h /\ heqb h (hash b) = true) /\
    (wk w = WFile \/ wk w = WClosed).
Proof. exact (@vwnd_shape). Qed.
Print Assumptions wound_mode_tiles.

Theorem wound_mode_nth :
  forall (A H : Type) (bs : Z) (hash : list A -> H) (heqb : H -> H -> bool) (fileIndex fileSize : Z) (group : list H)
         (bl : list (list A)) (i j : nat) (b : list A),
    nth_error bl j = Some b ->
    nth_error (wounds_from bs hash heqb fileIndex fileSize group i bl) j =
    Some (validate_as_wound bs hash heqb fileIndex fileSize group (i + j) b).
Proof. exact (@wounds_from_nth). Qed.
Print Assumptions wound_mode_nth.

(** non-vacuity: a concrete run (bs = 2, signed "ab|cd|e", written "ab|cX|e" in writes of
    1,2,2 bytes) meets the hypotheses and fails exactly at block 1 *)
Example error_mode_example :
  vpool_error 2 (fun b : list N => b) nlist_eqb [[1;2];[3;4];[5]]%N [[1];[2;3];[9;5]]%N = (Failed, 2, [[1;2]]%N).
Proof. vm_compute. reflexivity. Qed.

(** Which call fails: with [k] successful Write calls before the failure, the first [k] writes
    on their own all succeed (no rejected block is complete yet), and the failing call is either
    Write number [k] (0-based) - the one whose bytes complete the rejected block - or, when
    [k = length ws], Close flushing the short last block. *)
Theorem failing_call_is_the_completing_one :
  forall (A St : Type) (bs : nat) (validate : St -> list A -> St * bool) (s0 : St) (ws : list (list A))
         (w' : @dw A St) (k : nat),
    session bs validate s0 ws = (w', Failed, k) ->
    (k = length ws /\ exists w1, writes bs validate (mkdw [] s0 []) ws 0 = (w1, Done, k) /\ close validate w1 = (w', Failed)) \/
    (k < length ws /\ exists w1 d,
        writes bs validate (mkdw [] s0 []) (firstn k ws) 0 = (w1, Done, k) /\
        nth_error ws k = Some d /\ write bs validate w1 d = (w', Failed)).
Proof. exact (@session_failing_call). Qed.
Print Assumptions failing_call_is_the_completing_one.

(** "nothing from that block on reaches the underlying pool" also when the client goes on calling
    the writer after the failure (poolBowl.Transpose closes it after a failed copy; [defer w.Close()]).
    The pinned code violated this: Close re-validated the refused block against the NEXT signed block
    and relayed it when equal (finding C18-close-after-reject, repaired by the sticky error). *)
Theorem close_after_reject_refuted_on_pinned_code :
  exists (signed : list (list nat)) (d : list nat) w',
    write 2 (sig_validate signed) (mkdw [] 0 []) d = (w', Failed) /\
    dsink w' = [] /\
    dsink (fst (old_call 2 (sig_validate signed) w' CClose)) = [[3; 4]] /\
    dsink (fst (fst (sticky_calls 2 (sig_validate signed) (mkdw [] 0 [], false) [CWrite d; CClose]))) = [].
Proof. exact close_after_reject_refuted. Qed.
Print Assumptions close_after_reject_refuted_on_pinned_code.

(** repaired code: after the failing Write, every later Write / Close fails and the sink stays
    exactly what the failing Write left (which [error_mode] characterises). *)
Theorem nothing_reaches_the_pool_after_a_failed_write :
  forall (A St : Type) (bs : nat) (validate : St -> list A -> St * bool) (w : @dw A St) (d : list A) (w' : @dw A St)
         (cs : list (@call A)),
    write bs validate w d = (w', Failed) ->
    let '(wf', os) := sticky_calls bs validate (w, false) (CWrite d :: cs) in
    dsink (fst wf') = dsink w' /\ Forall (fun o => o = Failed) os.
Proof. exact (@sticky_after_failed_write). Qed.
Print Assumptions nothing_reaches_the_pool_after_a_failed_write.

Theorem repaired_writer_is_the_pinned_writer_until_a_call_fails :
  forall (A St : Type) (bs : nat) (validate : St -> list A -> St * bool) (w : @dw A St) (c : @call A),
    let '(wf', o) := sticky_call bs validate (w, false) c in
    let '(w', o') := old_call bs validate w c in
    fst wf' = w' /\ o = o'.
Proof. exact (@sticky_agrees_until_failure). Qed.
Print Assumptions repaired_writer_is_the_pinned_writer_until_a_call_fails.
