(** C17 - partial application by whitelist produces exactly the selected files.
    Only statements, [exact], and [Print Assumptions]; models in Patch/Patcher.v (Resume loop,
    whitelist => skipFile, recording trace), Patch/Reinterp.v (every frame is decoded as the
    type the reader expects), Patch/Whitelist.v (vocabulary), Bowl/Fresh.v; proofs in
    Patch/PatcherProofs.v, Patch/WhitelistProofs.v, Patch/ReinterpProofs.v.

    The model follows the patcher AFTER repo commit 261a579 (fix: skipFile follows the series
    kind).  Before it the statement was false: see [skip_v0_desync] below and the corpus case
    of harness/cmd/wharfobs/c17.go. *)
From Wharf Require Import Base.Prelude Bowl.Fresh Bowl.FreshProofs Patch.Reinterp Patch.ReinterpProofs Patch.Stream Patch.Patcher
     Patch.Whitelist Patch.PatcherProofs Patch.WhitelistProofs.
Local Open Scope Z_scope.

(** For EVERY message list (plain, optimized, hand-made - no grammar is assumed), every old
    build, every well-formed new container and every whitelist W: if the patch applies in
    full, then it applies under W, GetTouchedFiles is the number of selected indices, the
    calls the recording bowl / pool see are exactly the selected files' segments of the full
    run's calls (so bowl calls and old-build reads happen only for selected files), and every
    selected file ends up as full application leaves it. *)
Theorem whitelist_exact :
  forall (bs : Z) (oldC newC : container) (olds : list (list byte)) (W : list Z),
    wf_container newC ->
  forall (ms : list pmsg) (t : tree) (touched : Z) (trace : list event),
    apply_fresh bs oldC newC olds None ms = Ok (t, touched, trace) ->
    exists tW segs,
      apply_fresh bs oldC newC olds (Some W) ms
        = Ok (tW, wl_count W 0 (length (c_files newC)), wl_select W 0 segs) /\
      touched = Z.of_nat (length (c_files newC)) /\
      length segs = length (c_files newC) /\ trace = concat segs /\
      (forall i seg, nth_error segs i = Some seg -> Forall (bowl_ev_for (Z.of_nat i)) seg) /\
      (forall i p sz, wl_mem W i = true -> znth (c_files newC) i = Some (p, sz) -> tlookup tW p = tlookup t p).
Proof. exact whitelist_exact_lemma. Qed.
Print Assumptions whitelist_exact.

(** the executable test the correspondence evaluates on the new container of every patch the
    harness makes a C17 claim about implies the hypothesis [wf_container] *)
Theorem wf_container_test_sound : forall c, wf_containerb c = true -> wf_container c.
Proof. exact wf_containerb_sound. Qed.
Print Assumptions wf_container_test_sound.

(** ... in particular every GetWriter / Transpose of the whitelisted run names a selected file *)
Theorem whitelist_bowl_calls_selected_only :
  forall (W : list Z) (segs : list (list event)),
    (forall i seg, nth_error segs i = Some seg -> Forall (bowl_ev_for (Z.of_nat i)) seg) ->
    Forall (ev_selected W) (wl_select W 0 segs).
Proof. exact select_only_selected0. Qed.
Print Assumptions whitelist_bowl_calls_selected_only.

(** the in-sync part: whatever a successful processing of a series consumes, skipping it
    consumes too (either series kind) *)
Theorem skip_consumes_what_processing_consumes :
  forall (bs : Z) (oldC newC : container) (olds : list (list byte)) (kind idx : Z) (ms : list pmsg) (s : pst)
         (r : list pmsg) (s' : pst),
    (kind =? SH_RSYNC) || (kind =? SH_BSDIFF) = true ->
    process_file bs oldC newC olds kind idx ms s = Ok (r, s') -> skip_file kind ms = Ok r.
Proof. exact process_skip. Qed.
Print Assumptions skip_consumes_what_processing_consumes.

(** processing a file depends only on what its own path holds and changes nothing else:
    two runs that agree there stay in agreement, log the same calls, consume the same frames *)
Theorem processing_is_local :
  forall (bs : Z) (oldC newC : container) (olds : list (list byte)) (p : path) (idx sz : Z)
         (t10 t20 : tree) (tr1 tr2 : list event) (kind : Z) (ms : list pmsg) (s1 s2 : pst) (r : list pmsg) (s1' : pst),
    znth (c_files newC) idx = Some (p, sz) -> file_ready t10 p -> file_ready t20 p ->
    srel p idx t10 t20 tr1 tr2 s1 s2 -> process_file bs oldC newC olds kind idx ms s1 = Ok (r, s1') ->
    exists s2', process_file bs oldC newC olds kind idx ms s2 = Ok (r, s2') /\ srel p idx t10 t20 tr1 tr2 s1' s2'.
Proof. exact process_rel. Qed.
Print Assumptions processing_is_local.

(** the schema-derived decoding table: a frame read as its own type is itself ... *)
Theorem reinterpret_own_type :
  forall m, pmsg_ok m ->
    match m with
    | MSH x => as_sh m = x | MSO x => as_so m = x | MBH x => as_bh m = x | MCT x => as_ct m = x
    end.
Proof. exact own_type_lemma. Qed.
Print Assumptions reinterpret_own_type.

(** ... a BsdiffHeader read as a SyncOp carries its target index into the op type (field 1,
    varint, in both), so target index 2049 reads as the end marker; a Control never does *)
Theorem bsdiff_header_read_as_sync_op :
  forall t, so_type (as_so (MBH (mkBH t))) = i32_of_u64 (u64_of_i64 t).
Proof. exact bh_reads_as_type. Qed.
Theorem bsdiff_header_2049_reads_as_end_marker : so_type (as_so (MBH (mkBH 2049))) = HEY.
Proof. exact bh_2049_reads_as_hey. Qed.
Theorem control_never_reads_as_end_marker : forall c, so_type (as_so (MCT c)) = 0.
Proof. exact ctrl_reads_as_type0. Qed.
Print Assumptions bsdiff_header_read_as_sync_op.
Print Assumptions control_never_reads_as_end_marker.

(** the repaired defect, on the skip function as it was before repo commit 261a579: a bsdiff
    series against old file #2049 is abandoned right after its header *)
Theorem skip_v0_desync :
  let series := [MBH (mkBH 2049); MCT (mkCT [1%N] [] 0 false); MCT (mkCT [] [] 0 true); hey_msg] in
  skip_file_v0 SH_BSDIFF series = Ok [MCT (mkCT [1%N] [] 0 false); MCT (mkCT [] [] 0 true); hey_msg] /\
  skip_file SH_BSDIFF series = Ok [].
Proof. exact skip_v0_desync_lemma. Qed.
Print Assumptions skip_v0_desync.

(** non-vacuity: a patch with a whole-file copy, a bsdiff series against old file 0 whose
    header carries... any index, a data-only file and an empty file; whitelist {1, 3} *)
Example whitelist_exact_example :
  let oldC := mkC [([1%N], 6)] [] [] in
  let newC := mkC [([2%N], 6); ([3%N], 4); ([4%N], 2); ([5%N], 0)] [] [] in
  let olds := [[1;2;3;4;5;6]]%N in
  let ms := [MSH (mkSH 0 0); MSO (mkSO 0 0 0 2 []); hey_msg;
             MSH (mkSH 1 1); MBH (mkBH 0); MCT (mkCT [1;1]%N [9;9]%N 0 false); MCT (mkCT [] [] 0 true); hey_msg;
             MSH (mkSH 0 2); MSO (mkSO 1 0 0 0 [7;7]%N); hey_msg;
             MSH (mkSH 0 3); MSO (mkSO 1 0 0 0 []); hey_msg] in
  wf_container newC /\
  match apply_fresh 4 oldC newC olds None ms with
  | Ok (t, touched, trace) =>
    touched = 4 /\ trace = [EvTranspose 0 0; EvRead 0; EvRead 0; EvWriter 1; EvWriter 2; EvWriter 3] /\
    tlookup t [2]%N = Some (File [1;2;3;4;5;6]%N) /\ tlookup t [3]%N = Some (File [2;3;9;9]%N) /\
    tlookup t [4]%N = Some (File [7;7]%N) /\ tlookup t [5]%N = Some (File [])
  | _ => False
  end /\
  match apply_fresh 4 oldC newC olds (Some [3; 1]) ms with
  | Ok (tW, touched, trace) =>
    touched = 2 /\ trace = [EvRead 0; EvWriter 1; EvWriter 3] /\
    tlookup tW [3]%N = Some (File [2;3;9;9]%N) /\ tlookup tW [5]%N = Some (File []) /\
    tlookup tW [2]%N = Some (File [0;0;0;0;0;0]%N)
  | _ => False
  end.
Proof.
  split.
  - unfold wf_container, c_paths. cbn. repeat split.
    + repeat constructor; cbn; intuition discriminate.
    + intuition discriminate.
    + intros p q [<-|[<-|[<-|[<-|[]]]]] Hq; cbn in Hq; contradiction.
    + intros f [<-|[<-|[<-|[<-|[]]]]]; cbn; lia.
  - vm_compute. repeat split; reflexivity.
Qed.
